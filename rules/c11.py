"""C11 - fixed parameters honoured at construction, in evaluation and through fitting."""
import ast
import itertools

from vstat.loader import AnalysisError
from vstat.terms import IT, builder, show, SELF, NONE, G, alts, walk, mentions, phi, neg_test
from vstat.guards import path_conditions, literals, exception_name
from vstat.cfg import cfg_of
from vstat import algebra, scipyinfo
from .distfam import families, SLOT_TABLE, P, A, expected_slot, DIST
from .fitcommon import MleInfo

EXPL = ("Per class x parameter rules over virocon/distributions.py: C11.ctor (f_p wins at construction, f_p stored), "
        "C11.mle (under 'self.f_p is not None' a scipy fit keyword valid for p's slot - grammar f<k>/f<shape>/fix_<shape>/floc/fscale "
        "read from the scipy sources - carries f_p through the slot transform; no invalid keyword), C11.unmap (fit result unpacked "
        "slot by slot through the inverse transform, constants discarded), C11.lsq (EW fixed-delta branch decided by a truth table over "
        "which parameters are fixed), C11.cond (ConditionalDistribution.fixed_parameters), C11.writers (who may write parameter attributes).")
ASSUME = ["scipy fit keeps a parameter exactly at a valid f-keyword's value", "the numeric result of the optimiser is not decided",
          "slot table of rules/distfam.py"]


def run(prog, rep):
    rep.explanation = EXPL + ' C11.evalflow: the parameter lookup and forwarding obligations of C08 (a fixed value reaches the template unchanged); C11.mle:fresh-keywords: the dict of fit keywords is created in the call.'
    rep.assumptions = ASSUME
    fams = families(prog, include_generic=True)
    for fam in fams:
        if fam.generic:
            rep.part(generic, prog, rep, fam)
            continue
        rep.part(ctor, prog, rep, fam)
        mi = rep.part(MleInfo, prog, fam)
        if mi is None:
            continue
        rep.analysed(mi.fn)
        rep.part(mle, prog, rep, fam, mi)
        rep.part(unmap, prog, rep, fam, mi)
    rep.part(lsq, prog, rep)
    rep.part(cond, prog, rep)
    rep.part(writers, prog, rep, fams)
    # a fixed parameter of a conditional distribution must also REACH the template unchanged at evaluation time:
    # the parameter lookup and the forwarding of C08 are filed here too
    from vstat.report import Relabel
    from . import c08
    flow = Relabel(rep, "C11.evalflow")
    for part in (c08.values, c08.forward):
        rep.part(part, prog, flow)
    rep.expect_min("C11.evalflow", 6)
    rep.expect_min("C11.ctor", 17)
    # a parameter fixed at 0 is fixed: f_<name> is never tested by truth
    from .falsy import rows as _falsy_rows
    rep.part(_falsy_rows, prog, rep, "C11.fixedzero", lambda name: name.startswith("f_") or name.startswith("self.f_"))
    rep.expect_min("C11.fixedzero", 1)
    rep.expect_min("C11.mle", 17)
    rep.expect_min("C11.unmap", 15)
    rep.expect_min("C11.lsq", 4)
    rep.expect_min("C11.cond", 2)
    rep.expect_min("C11.writers", 1)
    rep.expect_min("C11.generic", 4)


# --------------------------------------------------------------------- ctor
def _attr_stores(fn, b, pcs):
    """(attr name, value term, pc, stmt) for every ``self.X = v`` in fn; an if-expression is split."""
    out = []
    for st in cfg_of(fn).all_stmts():
        if not isinstance(st, (ast.Assign, ast.AugAssign)):
            continue
        tgs = st.targets if isinstance(st, ast.Assign) else [st.target]
        flat = []
        for tg in tgs:
            if isinstance(tg, (ast.Tuple, ast.List)):
                flat += [(e, i) for i, e in enumerate(tg.elts)]
            else:
                flat.append((tg, None))
        for tg, pos in flat:
            if isinstance(tg, ast.Attribute) and isinstance(tg.value, ast.Name) and tg.value.id == "self":
                if pos is None and isinstance(st, ast.Assign):
                    v = b.term(st.value, st)
                else:
                    v = IT(b.term(st.value, st), pos) if isinstance(st, ast.Assign) else ("aug",)
                pc = pcs.of(st)
                if v[0] == "ifexp":
                    out.append((tg.attr, v[2], pc + tuple(literals(v[1], True)), st))
                    out.append((tg.attr, v[3], pc + tuple(literals(v[1], False)), st))
                else:
                    out.append((tg.attr, v, pc, st))
    return out


def ctor(prog, rep, fam):
    fn = fam.m["__init__"]
    rep.analysed(fn)
    b = fam.b(fn)
    pcs = path_conditions(prog, fn, b)
    stores = _attr_stores(fn, b, pcs)
    for p in fam.param_names:
        inst = f"{fam.ci.qualname}.__init__:{p}"
        fp = P(f"f_{p}")
        mine = [s for s in stores if s[0] == p]
        site = fn.where(mine[0][3]) if mine else fn.where()
        fixed_ok = [s for s in mine if s[1] == fp and ("not", ("isnone", fp)) in s[2]]
        free_ok = [s for s in mine if s[1] == P(p) and ("not", ("isnone", fp)) not in s[2]]
        other = [s for s in mine if s not in fixed_ok and s not in free_ok]
        problems = []
        if not fixed_ok:
            problems.append(f"self.{p} is never set to f_{p} under 'f_{p} is not None': a fixed {p} is ignored at construction")
        if not free_ok:
            problems.append(f"self.{p} is never set to the free value {p}")
        for s in free_ok:
            if ("isnone", fp) not in s[2] and fixed_ok and s[3].lineno > max(x[3].lineno for x in fixed_ok):
                problems.append(f"unconditional self.{p} = {p} after the fixed value was stored")
        if other:
            problems.append(f"unexpected store(s) to self.{p}: {[show(s[1])[:40] for s in other]}")
        fstore = [s for s in stores if s[0] == f"f_{p}"]
        if not any(s[1] == fp and not s[2] for s in fstore):
            problems.append(f"self.f_{p} is not stored from the constructor argument f_{p}")
        if problems:
            rep.fail("C11.ctor", inst, site, "; ".join(problems))
        else:
            rep.ok("C11.ctor", inst, site, f"self.{p} = {p} if f_{p} is None else f_{p}; self.f_{p} = f_{p}")


# ---------------------------------------------------------------------- mle
def mle(prog, rep, fam, mi):
    fn = mi.fn
    if mi.fit_call is None:
        closed_form(prog, rep, fam, mi)
        return
    dist, table = SLOT_TABLE[fam.name]
    site = fn.where(mi.fit_stmt)
    if mi.dist != dist:
        rep.fail("C11.mle", f"{fam.ci.qualname}._fit_mle:dist", site, f"fits scipy.stats.{mi.dist} but evaluates scipy.stats.{dist}")
        return
    if mi.kw_name is None:
        rep.fail("C11.mle", f"{fam.ci.qualname}._fit_mle:kwargs", site, "no ** keyword dict is passed to scipy fit: fixed parameters cannot reach the optimiser")
        return
    if not mi.shared_keywords(rep, "C11.mle"):
        return
    valid = scipyinfo.all_fit_keys(dist)
    sig = scipyinfo.positional_signature(dist)
    used = set()
    for p in fam.param_names:
        inst = f"{fam.ci.qualname}._fit_mle:{p}"
        slot = mi.slot_of(p)
        if slot is None:
            rep.fail("C11.mle", inst, site, f"parameter {p} has no slot in the table")
            continue
        i, sname, kind = slot
        keys = scipyinfo.fit_keys_for_slot(dist, i)
        fp = A(f"f_{p}")
        guard = ("not", ("isnone", fp))
        want = expected_slot(kind, p, lambda q: A(f"f_{q}"))
        guarded = [s for s in mi.kw_stores if guard in s[2]]
        good = [s for s in guarded if s[0] in keys and algebra.same(s[1], want)]
        for s in guarded:
            used.add(id(s))
        if good and len(guarded) == len(good):
            rep.ok("C11.mle", inst, fn.where(good[0][3]), f"{good[0][0]} = {kind}(f_{p}) under 'self.f_{p} is not None'")
            continue
        msgs = []
        if not guarded:
            msgs.append(f"no fit keyword is set under 'self.f_{p} is not None': a fixed {p} is re-estimated")
        for s in guarded:
            if s in good:
                continue
            if s[0] not in valid:
                msgs.append(f"keyword '{s[0]}' is not accepted by scipy.stats.{dist}.fit (valid for {p}: {sorted(keys)}) -> TypeError 'Unknown arguments' whenever {p} is fixed")
            elif s[0] not in keys:
                msgs.append(f"keyword '{s[0]}' fixes another slot than {p}'s (scipy '{sname}', valid: {sorted(keys)})")
            else:
                msgs.append(f"keyword '{s[0]}' carries {show(s[1])[:60]} but {p}'s slot is {kind}(f_{p}) = {show(want)[:60]}")
        rep.fail("C11.mle", inst, fn.where(guarded[0][3]) if guarded else site, "; ".join(msgs))
    # the remaining (unguarded) entries must pin constant slots of the table or scipy defaults of unused slots
    for s in mi.kw_stores:
        if id(s) in used:
            continue
        inst = f"{fam.ci.qualname}._fit_mle:const:{s[0]}"
        ok = False
        why = ""
        if s[0] not in valid:
            why = f"keyword '{s[0]}' is not accepted by scipy.stats.{dist}.fit"
        elif s[2]:
            why = f"keyword '{s[0]}' set under an unrecognised condition {[show(l)[:40] for l in s[2]]}"
        else:
            for j, sn in enumerate(sig):
                if s[0] in scipyinfo.fit_keys_for_slot(dist, j):
                    if sn in table:
                        kind, par = table[sn]
                        ok = kind == "const" and algebra.same(s[1], ("const", par))
                        why = f"'{s[0]}' pins scipy '{sn}' unconditionally to {show(s[1])[:40]} but the documented parameterisation is {table[sn]}"
                    else:
                        default = {"loc": 0, "scale": 1}.get(sn)
                        ok = default is not None and algebra.same(s[1], ("const", default))
                        why = f"'{s[0]}' pins unused scipy '{sn}' to {show(s[1])[:40]} (not its neutral value {default})"
        rep.check(ok, "C11.mle", inst, fn.where(s[3]), f"constant slot pinned: {s[0]}={show(s[1])}", why)
    # constant slots of the table must be pinned
    for j, sn in enumerate(sig):
        if sn in table and table[sn][0] == "const":
            pinned = [s for s in mi.kw_stores if not s[2] and s[0] in scipyinfo.fit_keys_for_slot(dist, j)]
            rep.check(bool(pinned), "C11.mle", f"{fam.ci.qualname}._fit_mle:pin:{sn}", site, f"{sn} pinned",
                      f"scipy '{sn}' is the constant {table[sn][1]} in the documented parameterisation but is left free in the fit")


def closed_form(prog, rep, fam, mi):
    fn = mi.fn
    stores = _attr_stores(fn, mi.b, mi.pcs)
    for p in fam.param_names:
        inst = f"{fam.ci.qualname}._fit_mle:{p}"
        fp = A(f"f_{p}")
        mine = [s for s in stores if s[0] == p]
        fixed = [s for s in mine if s[1] == fp and ("not", ("isnone", fp)) in s[2]]
        free = [s for s in mine if ("isnone", fp) in s[2] and not mentions(s[1], fp)]
        other = [s for s in mine if s not in fixed and s not in free]
        ok = bool(fixed) and bool(free) and not other
        rep.check(ok, "C11.mle", inst, fn.where(mine[0][3]) if mine else fn.where(),
                  f"closed form: self.{p} = f_{p} when fixed, estimate otherwise",
                  f"closed-form fit must assign self.{p} = self.f_{p} exactly when it is fixed and an estimate otherwise; stores: {[(show(s[1])[:40], [show(l)[:30] for l in s[2]]) for s in mine]}")


# -------------------------------------------------------------------- unmap
def _setter_inverse(prog, fam, attr):
    """For a property ``attr`` with setter ``self.p = f(val)``: (p, kind) with kind in id/exp/recip
    naming the *getter* transform the setter inverts."""
    st = prog.lookup_setter(fam.ci, attr)
    if st is None:
        return None
    b = fam.b(st)
    val = [q for q in st.positional_params if q != "self"][0]
    for s in cfg_of(st).all_stmts():
        if isinstance(s, ast.Assign) and isinstance(s.targets[0], ast.Attribute):
            t = b.term(s.value, s)
            p = s.targets[0].attr
            if t == ("call", G("numpy.log"), (P(val),), ()):
                return p, "exp"
            if algebra.same(t, ("bin", "/", ("const", 1), P(val))):
                return p, "recip"
            if t == P(val):
                return p, "id"
    return None


def unmap(prog, rep, fam, mi):
    if mi.fit_call is None:
        return
    fn = mi.fn
    dist, table = SLOT_TABLE[fam.name]
    sig = scipyinfo.positional_signature(dist)
    site = fn.where(mi.fit_stmt)
    tg = mi.unpack_targets()
    if tg is None or len(tg) != len(sig):
        rep.fail("C11.unmap", f"{fam.ci.qualname}._fit_mle:arity", site,
                 f"scipy.stats.{dist}.fit returns {len(sig)} values {sig}; they must be unpacked one by one (found {len(tg) if tg else 'no tuple target'})")
        return
    for i, (sn, t) in enumerate(zip(sig, tg)):
        inst = f"{fam.ci.qualname}._fit_mle:result{i}={sn}"
        is_self_attr = isinstance(t, ast.Attribute) and isinstance(t.value, ast.Name) and t.value.id == "self"
        if sn not in table or table[sn][0] == "const":
            rep.check(not is_self_attr, "C11.unmap", inst, site, f"constant slot {sn} discarded",
                      f"fitted scipy '{sn}' is a constant of the parameterisation and must be discarded, but is written to self.{getattr(t, 'attr', '?')}")
            continue
        kind, p = table[sn]
        if not is_self_attr:
            rep.fail("C11.unmap", inst, site, f"fitted scipy '{sn}' (= {kind}({p})) is discarded: {p} keeps its start value")
            continue
        if fam.prog.is_property(fam.ci, t.attr):
            inv = _setter_inverse(prog, fam, t.attr)
            ok = inv == (p, kind)
            rep.check(ok, "C11.unmap", inst, site, f"self.{t.attr} setter inverts {kind} into self.{p}",
                      f"fitted scipy '{sn}' = {kind}({p}) is written through property {t.attr} whose setter gives {inv}")
        else:
            ok = t.attr == p and kind == "id"
            rep.check(ok, "C11.unmap", inst, site, f"self.{p} <- {sn}",
                      f"fitted scipy '{sn}' = {kind}({p}) is written to self.{t.attr}" + ("" if kind == "id" else f" without inverting {kind}"))
        # "is still that value after fitting": the value written back is the one scipy's fit returns.  The generic fit
        # restores a fixed keyword exactly; a family's own fit override may not (read from the scipy sources).  Where it
        # does not, the fixed value must be put back after the fit.
        tr = scipyinfo.fit_transforms(dist).get(sn)
        inst2 = f"{fam.ci.qualname}._fit_mle:result{i}={sn}:fixed-kept"
        if tr is None and kind == "exp":
            # fixed as fscale = exp(f_p), read back as log(scale): log(exp(v)) is v only up to an ABSOLUTE error of an ulp of 1,
            # which is far more than 1e-12 relative for a small |v|
            tr = (None, f"{p} = log(exp(f_{p})) through the {sn} slot")
        if tr is None:
            rep.ok("C11.unmap", inst2, site, f"scipy.stats.{dist}.fit hands a fixed '{sn}' back unchanged (no rewriting override in the scipy sources)")
            continue
        fp = A(f"f_{p}")
        after = [st_ for st_ in _attr_stores(fn, mi.b, mi.pcs) if st_[0] == p and st_[3] is not mi.fit_stmt
                 and mi.cfg.reachable(mi.cfg.node(mi.fit_stmt), mi.cfg.node(st_[3]))]
        # for EVERY fixed value: the restoring store runs under 'f_p is not None' and under nothing else the fit itself does not run under
        fit_lits = set(mi.pcs.of(mi.fit_stmt))
        restored = [st_ for st_ in after if st_[1] == fp and ("not", ("isnone", fp)) in st_[2]
                    and all(l_ == ("not", ("isnone", fp)) or l_ in fit_lits for l_ in st_[2])]
        spoiled = [st_ for st_ in after if st_ not in restored and any(mi.cfg.reachable(mi.cfg.node(r_[3]), mi.cfg.node(st_[3])) for r_ in restored)]
        rep.check(bool(restored) and not spoiled, "C11.unmap", inst2, fn.where(restored[0][3]) if restored else site,
                  f"self.{p} = self.f_{p} after the fit where {p} is fixed (scipy rewrites the value: {tr[1]})",
                  (f"scipy.stats.{dist}.fit does not return a fixed '{sn}' unchanged (scipy/stats/_continuous_distns.py:{tr[0]}: {tr[1]})" if tr[0] is not None else
                   f"the fixed value does not survive the round trip {tr[1]} to 1e-12 relative (absolute error of one ulp of 1: f_{p} = 1e-8 comes back 1.1e-8 off)")
                  + f", and _fit_mle stores the returned value in self.{p}: a fixed {p} is not its fixed value after fitting unless 'self.{p} = self.f_{p}' follows the fit under 'self.f_{p} is not None'")


# ---------------------------------------------------------------------- lsq
def _eval_lit(lit, env):
    """Evaluate a literal over the atoms 'which f_* are fixed'; env: name -> bool. None = unknown."""
    if lit[0] == "not":
        v = _eval_lit(lit[1], env)
        return None if v is None else not v
    if lit[0] == "and":
        vs = [_eval_lit(x, env) for x in lit[1]]
        if any(v is False for v in vs):
            return False
        return None if any(v is None for v in vs) else True
    if lit[0] == "or":
        vs = [_eval_lit(x, env) for x in lit[1]]
        if any(v is True for v in vs):
            return True
        return None if any(v is None for v in vs) else False
    if lit[0] == "isnone":
        x = lit[1]
        if x[0] == "attr" and x[1] == SELF and x[2].startswith("f_"):
            return not env.get(x[2][2:], None) if x[2][2:] in env else None
        if x == ("FIXED",):
            return not any(env.values())
        return None
    if lit[0] == "cmp" and lit[1] == "in" and lit[2][0] == "const" and lit[3] == ("FIXED",):
        return env.get(lit[2][1])
    if lit[0] == "cmp" and lit[1] == "==" and lit[2] == ("call", G("len"), (("FIXED",),), ()) and lit[3] == ("const", 0):
        return not any(env.values())
    if lit == ("FIXED",):
        return any(env.values())            # truth of the record: something is fixed
    if lit[0] == "cmp" and lit[1] == "==":
        # list(fixed) == ["delta"] / set(fixed) == {"delta"} / sorted(fixed) == [...]: exactly these are fixed (keys in the order they are recorded)
        for keys_t, lit_t in ((lit[2], lit[3]), (lit[3], lit[2])):
            if keys_t[0] == "call" and keys_t[1] in (G("list"), G("set"), G("sorted"), G("tuple")) and keys_t[2] in ((("FIXED",),), (("call", ("attr", ("FIXED",), "keys"), (), ()),)) \
                    and lit_t[0] in ("list", "tuple", "set") and all(x[0] == "const" for x in lit_t[1]):
                have = [k for k in env if env[k]]           # env is ordered like the records (alpha, beta, delta)
                want = [x[1] for x in lit_t[1]]
                if keys_t[1] in (G("set"),) or lit_t[0] == "set":
                    return set(have) == set(want)
                if keys_t[1] == G("sorted"):
                    return sorted(have) == want
                return have == want
    return None


def lsq(prog, rep):
    q = f"{DIST}.ExponentiatedWeibullDistribution._fit_lsq"
    fn = prog.func(q)
    rep.analysed(fn)
    b = builder(prog, fn)
    pcs = path_conditions(prog, fn, b)
    cfg = cfg_of(fn)
    names = ["alpha", "beta", "delta"]
    # the local dict that records which parameters are fixed
    fixed_name = None
    stores = {}
    for st in cfg.all_stmts():
        if isinstance(st, ast.Assign) and isinstance(st.targets[0], ast.Subscript) and isinstance(st.targets[0].value, ast.Name):
            k = b.term(st.targets[0].slice, st)
            v = b.term(st.value, st)
            if k[0] == "const" and k[1] in names and v == A(f"f_{k[1]}"):
                fixed_name = st.targets[0].value.id
                stores[k[1]] = ("not", ("isnone", A(f"f_{k[1]}"))) in pcs.of(st)
    site = fn.where()
    if fixed_name is not None:
        for n in names:
            rep.check(stores.get(n, False), "C11.lsq", f"{q}:record:{n}", site, f"{fixed_name}['{n}'] = self.f_{n} iff fixed",
                      f"the record of fixed parameters must contain '{n}' exactly when self.f_{n} is not None")
    # abstract the dict variable
    from vstat.terms import subst
    rd = b.rd
    fixed_terms = set()
    if fixed_name:
        for d in rd.all_defs(fixed_name):
            fixed_terms.add(b.def_term(d))
        fixed_terms.add(phi(fixed_terms))

    def absr(lit):
        m = {t: ("FIXED",) for t in fixed_terms}
        for st in cfg.all_stmts():
            pass
        return subst(lit, m)

    def pc_of(st):
        out = []
        for lit in pcs.of(st):
            # any term denoting the dict (at any program point) is abstracted; literals about other inputs
            # (the weights argument ...) are independent of which parameters are fixed and are left out
            l2 = absr(lit)
            if any(t == ("FIXED",) or (t[0] == "attr" and t[1] == SELF and t[2].startswith("f_")) for t in walk(l2)):
                out.append(l2)
        return out

    # abstraction of "fixed" at use sites: collect every term the name takes
    if fixed_name:
        for st in cfg.all_stmts():
            for n in ast.walk(st) if not isinstance(st, (ast.If, ast.For, ast.While, ast.Try, ast.With)) else ast.walk(getattr(st, "test", st) if hasattr(st, "test") else ast.Pass()):
                if isinstance(n, ast.Name) and n.id == fixed_name and isinstance(n.ctx, ast.Load):
                    fixed_terms.add(b.term(n, st))
    envs = [dict(zip(names, bits)) for bits in itertools.product([False, True], repeat=3)]
    delta_stores = []
    raises = []
    for st in cfg.all_stmts():
        if isinstance(st, ast.Assign):
            for tg in st.targets:
                if isinstance(tg, ast.Attribute) and tg.attr == "delta" and isinstance(tg.value, ast.Name) and tg.value.id == "self":
                    delta_stores.append(st)
        if isinstance(st, ast.Raise) and exception_name(st, b) == "NotImplementedError":
            raises.append(st)
    fixed_store = [st for st in delta_stores if algebra.same(b.term(st.value, st), A("f_delta"))]
    ok_store = True
    detail = []
    table = {}
    for env in envs:
        key = "".join(n[0] for n in names if env[n]) or "-"
        reach_store = [st for st in fixed_store if all(_eval_lit(l, env) is True for l in pc_of(st))]
        unknown = [st for st in fixed_store + raises if any(_eval_lit(l, env) is None for l in pc_of(st))]
        reach_raise = [st for st in raises if all(_eval_lit(l, env) is True for l in pc_of(st))]
        table[key] = ("store" if reach_store else "") + ("raise" if reach_raise else "") + ("?" if unknown else "")
    want = {"-": "", "d": "store", "a": "raise", "b": "raise", "ab": "raise", "ad": "raise", "bd": "raise", "abd": "raise"}
    rep.check(table.get("d") == "store", "C11.lsq", f"{q}:delta-fixed", site,
              "with only delta fixed: self.delta = self.f_delta",
              f"with only delta fixed the fit must set self.delta = self.f_delta; truth table over fixed subsets: {table}")
    bad = {k: v for k, v in table.items() if k not in ("-", "d") and v != "raise"}
    rep.check(not bad, "C11.lsq", f"{q}:other-subsets", site, "every other fixed subset raises NotImplementedError",
              f"fixed subsets {sorted(bad)} neither honour the fixed values nor raise NotImplementedError: {table}")
    rep.check(table.get("-") == "", "C11.lsq", f"{q}:none-fixed", site, "nothing fixed: neither branch",
              f"with nothing fixed the fixed-delta store / NotImplementedError must not be reached: {table}")
    rep.extra["C11.lsq.truth_table"] = table
    # other families: _fit_lsq raises NotImplementedError (no silent ignore of fixed parameters)
    n = 0
    for fam in families(prog, include_generic=True):
        f = fam.m["_fit_lsq"]
        if f is fn:
            continue
        body = [s for s in f.body if not (isinstance(s, ast.Expr) and isinstance(s.value, ast.Constant))]
        ok = len(body) == 1 and isinstance(body[0], ast.Raise) and exception_name(body[0], builder(prog, f)) == "NotImplementedError"
        rep.check(ok, "C11.lsq", f"{f.qualname}:unsupported", f.where(), "raises NotImplementedError",
                  "a family without least-squares support must raise NotImplementedError, not fit something else")
        n += 1


# --------------------------------------------------------------------- cond
def cond(prog, rep):
    q = f"{DIST}.ConditionalDistribution.__init__"
    fn = prog.func(q)
    rep.analysed(fn)
    b = builder(prog, fn)
    pcs = path_conditions(prog, fn, b)
    found = False
    cond_found = False
    for st in cfg_of(fn).all_stmts():
        if isinstance(st, ast.Assign) and isinstance(st.targets[0], ast.Subscript):
            tg = st.targets[0]
            base = b.term(tg.value, st)
            key = b.term(tg.slice, st)
            val = b.term(st.value, st)
            if base == ("attr", SELF, "fixed_parameters"):
                # value must be getattr(distribution, f"f_{key}")
                want = ("call", G("getattr"), (P("distribution"), ("fstr", (("const", "f_"), ("fmt", key, -1, "")))), ())
                pc = pcs.of(st)
                g1 = ("not", ("isnone", want)) in pc
                g2 = ("not", ("cmp", "in", key, P("parameters"))) in pc
                ok = val == want and g1 and g2 and key[0] == "sub" and key[1] == ("attr", SELF, "param_names") and key[2][0] == "idx" 
                found = found or ok
                rep.check(ok, "C11.cond", f"{q}:fixed_parameters", fn.where(st),
                          "fixed_parameters[name] = distribution.f_<name> when not dependent and fixed",
                          f"fixed_parameters[K] must be getattr(distribution, 'f_'+K) for the same K over the template's parameter names, on the branch 'K not in parameters' and 'f_K is not None'; found key {show(key)[:60]} value {show(val)[:80]} pc {[show(l)[:40] for l in pc]}")
            if base == ("attr", SELF, "conditional_parameters"):
                pc = pcs.of(st)
                ok = val == ("sub", P("parameters"), key) and ("cmp", "in", key, P("parameters")) in pc
                cond_found = cond_found or ok
                rep.check(ok, "C11.cond", f"{q}:conditional_parameters", fn.where(st),
                          "conditional_parameters[name] = parameters[name]",
                          f"conditional_parameters[K] must be parameters[K] of the same K; found {show(val)[:80]}")
    names_ok = False
    for st in cfg_of(fn).all_stmts():
        if isinstance(st, ast.Assign) and isinstance(st.targets[0], ast.Attribute) and st.targets[0].attr == "param_names":
            v = b.term(st.value, st)
            dp = ("attr", P("distribution"), "parameters")
            names_ok = v in (("call", G("list"), (dp,), ()), ("call", G("list"), (("call", ("attr", dp, "keys"), (), ()),), ()))
    rep.check(names_ok, "C11.cond", f"{q}:param_names", fn.where(), "param_names = list(distribution.parameters)",
              "self.param_names must be the template's own parameter names, in order")
    if not found:
        rep.fail("C11.cond", f"{q}:fixed_parameters:missing", fn.where(), "no store into self.fixed_parameters found")
    if not cond_found:
        rep.fail("C11.cond", f"{q}:conditional_parameters:missing", fn.where(), "no store into self.conditional_parameters found")


# ------------------------------------------------------------------ writers
ALLOWED_WRITERS = {"__init__", "_fit_mle", "_fit_lsq", "_set_default_parameter_values"}


def _is_dist_class(ci):
    return ci is not None and any(c.qualname == f"{DIST}.Distribution" for c in ci.mro)


def _receiver_kind(prog, fn, node):
    """'dist' / 'nondist' / 'unknown': can the object written to be a distribution?  self is decided by the class; a
    parameter of a helper by what every call site in the package passes for it (self of which class)."""
    if not isinstance(node, ast.Name):
        return "unknown"
    if node.id == "self" and fn.cls is not None:
        return "dist" if _is_dist_class(fn.cls) else "nondist"
    params = [a.arg for a in fn.node.args.posonlyargs + fn.node.args.args] if hasattr(fn.node, "args") else []
    if node.id not in params:
        return "unknown"
    pos = params.index(node.id)
    if fn.cls is not None and not fn.is_static and params and params[0] in ("self", "cls"):
        pos -= 1
    kinds = set()
    for q, caller in prog.functions.items():
        for c in ast.walk(caller.node):
            if not isinstance(c, ast.Call):
                continue
            f = c.func
            nm = f.id if isinstance(f, ast.Name) else f.attr if isinstance(f, ast.Attribute) else None
            if nm != fn.name:
                continue
            arg = c.args[pos] if 0 <= pos < len(c.args) else next((k.value for k in c.keywords if k.arg == node.id), None)
            if isinstance(arg, ast.Name) and arg.id == "self" and caller.cls is not None:
                kinds.add("dist" if _is_dist_class(caller.cls) else "nondist")
            else:
                kinds.add("unknown")
    if not kinds and fn.name.startswith("_") and not fn.name.startswith("__"):
        # a private helper without a call site left: every call was merged into its caller (vstat/inliner.py) and is judged there
        return "nondist"
    return "nondist" if kinds == {"nondist"} else "dist" if kinds == {"dist"} else "unknown"


def writers(prog, rep, fams):
    allp = set()
    for fam in fams:
        if fam.param_names:
            allp |= set(fam.param_names)
    n = 0
    bad = []
    for q, fn in prog.functions.items():
        for node in ast.walk(fn.node) if fn.parent is None else []:
            tgt = None
            if isinstance(node, ast.Assign):
                tgts = []
                for t in node.targets:
                    tgts += list(t.elts) if isinstance(t, (ast.Tuple, ast.List)) else [t]
            elif isinstance(node, ast.AugAssign):
                tgts = [node.target]
            elif isinstance(node, ast.Call) and isinstance(node.func, ast.Name) and node.func.id == "setattr":
                kind = _receiver_kind(prog, fn, node.args[0]) if node.args else "unknown"
                if kind != "nondist" and not (fn.cls is not None and fn.cls.name == "ScipyDistribution"):
                    bad.append((q, node.lineno, "setattr(...) outside ScipyDistribution"))
                n += 1
                continue
            else:
                continue
            for t in tgts:
                if isinstance(t, ast.Attribute) and t.attr in allp:
                    n += 1
                    is_self = isinstance(t.value, ast.Name) and t.value.id == "self"
                    in_dist = fn.cls is not None and any(c.qualname == f"{DIST}.Distribution" for c in fn.cls.mro)
                    if in_dist and is_self:
                        if fn.name not in ALLOWED_WRITERS and not q.endswith(".setter"):
                            bad.append((q, node.lineno, f"self.{t.attr} written in {fn.name}"))
                    elif not is_self and _receiver_kind(prog, fn, t.value) != "nondist":
                        bad.append((q, node.lineno, f"{ast.unparse(t)} written from outside the distribution"))
    rep.extra["C11.writers.sites"] = n
    if bad:
        for q, ln, what in bad:
            rep.fail("C11.writers", f"{q}:{what}", f"{prog.functions[q].file}:{ln}", f"parameter attribute written outside constructor/fit/setter: {what}")
    else:
        rep.ok("C11.writers", "package", "virocon/*.py", f"{n} parameter-attribute write sites, all in __init__/_fit_mle/_fit_lsq/property setters")


# ------------------------------------------------------------------ generic
def generic(prog, rep, fam):
    ci = fam.ci
    fn = fam.m["__init__"]
    rep.analysed(fn)
    b = fam.b(fn, inline=False)
    pcs = path_conditions(prog, fn, b)
    sets = []
    for st in cfg_of(fn).all_stmts():
        if isinstance(st, ast.Expr) and isinstance(st.value, ast.Call):
            t = b.term(st.value, st)
            if t[0] == "call" and t[1] == G("setattr") and len(t[2]) == 3 and t[2][0] == SELF:
                sets.append((t[2][1], t[2][2], pcs.of(st), st))
    # f_<name>=v : setattr(self, key, v) and setattr(self, key[2:], v) under key.startswith('f_') and key[2:] in names
    fkey = [s for s in sets if any(l[0] == "call" and l[1][0] == "attr" and l[1][2] == "startswith" and l[2] == (("const", "f_"),) for l in s[2])]
    full = [s for s in fkey if s[0][0] == "key"]
    stripped = [s for s in fkey if s[0][0] == "sub" and s[0][2] == ("slice", ("const", 2), NONE, NONE)]
    ok = bool(full) and bool(stripped) and all(s[1] == full[0][1] for s in full + stripped) and stripped[0][0][1] == full[0][0]
    rep.check(ok, "C11.generic", f"{ci.qualname}.__init__:f_kw", fn.where(),
              "f_<name>=v sets both self.f_<name> and self.<name> to v",
              "an f_<name> keyword must set both the f_ attribute and the parameter itself to the same value")
    # ... and stays the value: a plain keyword of the same name must not overwrite it (whatever the keyword order), and
    # f_<name>=None ("not fixed", the default) must not wipe the parameter
    from vstat.terms import walk as _walk
    mentions_fixed_sibling = lambda l, key: any(w[0] == "fstr" and w[1][:1] == (("const", "f_"),) and len(w[1]) == 2 and w[1][1][0] == "fmt" and w[1][1][1] == key for w in _walk(l))
    plain = [s_ for s_ in sets if s_[0][0] == "key" and s_ not in fkey]
    okw = bool(plain) and all(any(mentions_fixed_sibling(l, s_[0]) for l in s_[2]) for s_ in plain)
    if not okw and plain:
        # or: the keywords are visited in an order that puts every f_ keyword after the plain ones
        for lp in [x for x in cfg_of(fn).all_stmts() if isinstance(x, ast.For)]:
            it = b.term(lp.iter, lp)
            if it[0] == "call" and it[1] == G("sorted") and any(w == ("const", "f_") for w in _walk(it)) and all(lp in [p_ for p_, _w in cfg_of(fn).enclosing(s_[3])] for s_ in plain + fkey):
                okw = True
    rep.check(okw, "C11.generic", f"{ci.qualname}.__init__:f_kw:wins", fn.where(plain[0][3]) if plain else fn.where(),
              "a plain keyword is stored only where no fixed value is given for the same parameter",
              "a plain keyword <name>=v must not overwrite the value of f_<name> given in the same call: with the keywords in the order (f_<name>, <name>) "
              "the parameter ends up as v although it is declared fixed (store it only where kwargs has no f_<name>, or visit the f_ keywords last)")
    okn = bool(stripped) and all(("not", ("isnone", s_[1])) in s_[2] for s_ in stripped)
    rep.check(okn, "C11.generic", f"{ci.qualname}.__init__:f_kw:none", fn.where(stripped[0][3]) if stripped else fn.where(),
              "f_<name>=None leaves the parameter alone", "f_<name>=None means 'not fixed' (the default): it must not set the parameter itself to None")
    mf = fam.m["_fit_mle"]
    rep.analysed(mf)
    bm = fam.b(mf, inline=False)
    pm = path_conditions(prog, mf, bm)
    good = False
    fit_ok = False
    unpack_ok = False
    keep_ok = False
    for st in cfg_of(mf).all_stmts():
        if isinstance(st, ast.Assign) and isinstance(st.targets[0], ast.Subscript):
            k = bm.term(st.targets[0].slice, st)
            v = bm.term(st.value, st)
            # fparams[f"f{par_name}"] = getattr(self, f"f_{par_name}") under 'is not None'
            if k[0] == "fstr" and len(k[1]) == 2 and k[1][0] == ("const", "f") and k[1][1][0] == "fmt":
                name = k[1][1][1]
                want = ("call", G("getattr"), (SELF, ("fstr", (("const", "f_"), ("fmt", name, -1, "")))), ())
                if v == want and ("not", ("isnone", want)) in pm.of(st) and name[0] == "sub" and name[1] == ("attr", SELF, "_param_names"):
                    good = True
        if isinstance(st, ast.Assign) and isinstance(st.value, ast.Call):
            t = bm.term(st.value, st)
            if t[0] == "call" and t[1] == ("attr", ("attr", SELF, "scipy_dist"), "fit"):
                fit_ok = t[2][:1] == (P([p for p in mf.positional_params if p != "self"][0]),) and any(k == "**" for k, _ in t[3])
        if isinstance(st, ast.Expr) and isinstance(st.value, ast.Call):
            t = bm.term(st.value, st)
            if t[0] == "call" and t[1] == G("setattr") and t[2][0] == SELF:
                nm, val = t[2][1], t[2][2]
                if nm[0] == "sub" and nm[1] == ("attr", SELF, "_param_names") and val[0] == "sub" and val[2] == nm[2]:
                    unpack_ok = True
                    keep_ok = False     # the returned value is stored whether or not the parameter is fixed
                val_idx = nm[2] if nm[0] == "sub" else None
                if nm[0] == "sub" and nm[1] == ("attr", SELF, "_param_names") and val[0] == "sub" and val[2] == nm[2] and val[1][0] == "comp" \
                        and val[1][4][0] == "call" and val[1][4][1] == G("zip") and val[1][4][2][:1] == (("attr", SELF, "_param_names"),):
                    # the values were first collected in a list, one per parameter name in order: its element is what is stored
                    unpack_ok = True
                    val_idx = ("idx", val[1][3], "zip")
                    val = val[1][2]
                if nm[0] == "sub" and nm[1] == ("attr", SELF, "_param_names") and val[0] == "phi" and len(val[1]) == 2 \
                        and len(st.value.args) == 3 and isinstance(st.value.args[2], ast.Name):
                    # the stored name was re-bound under a test (`if fixed is not None: value = fixed`): read it as the choice it is
                    for d_ in bm.rd.reaching(st.value.args[2].id, st):
                        if d_.kind == "assign" and d_.stmt is not None and isinstance(d_.stmt, ast.Assign):
                            fv = bm.term(d_.stmt.value, d_.stmt)
                            others = [a_ for a_ in val[1] if a_ != fv]
                            own = [l_ for l_ in pm.of(d_.stmt) if l_ not in pm.of(st)]
                            if fv in val[1] and len(others) == 1 and own == [("not", ("isnone", fv))]:
                                val = ("ifexp", ("isnone", fv), others[0], fv)
                if nm[0] == "sub" and nm[1] == ("attr", SELF, "_param_names") and val[0] == "ifexp":
                    # returned value where the parameter is free, its fixed value where it is fixed
                    tst, a_, b_ = val[1], val[2], val[3]
                    if tst[0] == "not":
                        tst, a_, b_ = tst[1], b_, a_
                    fixed_of = lambda x_: any(w_[0] == "fstr" and any(c_ in (("const", "f"), ("const", "f_")) for c_ in w_[1]) for w_ in walk(x_))
                    if tst[0] == "isnone" and tst[1] == b_ and fixed_of(b_) and a_[0] == "sub" and a_[2] == val_idx:
                        unpack_ok = keep_ok = True
    if not good:
        # the same dictionary built in one expression (a comprehension over the parameter names, possibly through a
        # none-dropping helper): ONE symbolic entry f"f{name}" -> getattr(self, f"f_{name}") under 'is not None'
        from vstat.terms import dict_entries
        for st in cfg_of(mf).all_stmts():
            if isinstance(st, ast.Assign) and len(st.targets) == 1 and isinstance(st.targets[0], ast.Name):
                ents = dict_entries(bm.term(st.value, st))
                for k, v, lits in ents or []:
                    if k[0] == "fstr" and len(k[1]) == 2 and k[1][0] == ("const", "f") and k[1][1][0] == "fmt":
                        name = k[1][1][1]
                        want = ("call", G("getattr"), (SELF, ("fstr", (("const", "f_"), ("fmt", name, -1, "")))), ())
                        if v == want and ("not", ("isnone", want)) in tuple(lits) + tuple(pm.of(st)) and name[0] == "sub" and name[1] == ("attr", SELF, "_param_names"):
                            good = True
    rep.check(good, "C11.generic", f"{ci.qualname}._fit_mle:f_kw", mf.where(),
              "f<name> = self.f_<name> for each fixed parameter name (scipy accepts f<shape>, floc, fscale)",
              "each fixed parameter must be passed to scipy fit as f<name> with its own f_ value under 'is not None'")
    rep.check(fit_ok, "C11.generic", f"{ci.qualname}._fit_mle:call", mf.where(), "self.scipy_dist.fit(sample, ..., **fparams)",
              "fit must be called on self.scipy_dist with the unmodified sample and the fixed-parameter keywords")
    rep.check(unpack_ok, "C11.generic", f"{ci.qualname}._fit_mle:unpack", mf.where(), "result i -> parameter name i",
              "the fit result must be written back pairwise onto self._param_names in order")
    rep.check(keep_ok, "C11.generic", f"{ci.qualname}._fit_mle:fixed-kept", mf.where(), "a fixed parameter is written back as its fixed value, not as what scipy returns",
              "the wrapper may wrap ANY scipy family, also one whose own fit rewrites a fixed keyword (vonmises wraps loc into [-pi, pi] and returns scale 1): "
              "a fixed parameter must be written back as its fixed value, not as the value scipy returns")
    # f-keyword names: 'f'+name is valid for shapes (f<shape>) and for loc/scale (floc/fscale): grammar anchor
    rep.ok("C11.generic", f"{ci.qualname}:grammar", "scipy/_distn_infrastructure.py", "scipy accepts f<shape-name>, floc, fscale (anchors found in the scipy sources)")
