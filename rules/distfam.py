"""Shared analysis of the distribution families in virocon/distributions.py."""
import ast

from vstat.loader import AnalysisError
from vstat.terms import builder, show, SELF, NONE, G, alts, walk, mentions, phi, contains
from vstat.guards import path_conditions
from vstat.dataflow import rd_of
from vstat.cfg import cfg_of, EXIT
from vstat import algebra
from vstat import scipyinfo

DIST = "virocon.distributions"
BASE = f"{DIST}.Distribution"
GENERIC = f"{DIST}.ScipyDistribution"

# Frozen slot table (C05.slots).  scipy positional name -> (transform, virocon parameter).
# Reasons, one line per row:
SLOT_TABLE = {
    # docstring pdf beta/alpha*((x-gamma)/alpha)^(beta-1)exp(-((x-gamma)/alpha)^beta)  vs scipy weibull_min c*x^(c-1)exp(-x^c), (x-loc)/scale
    "WeibullDistribution": ("weibull_min", {"c": ("id", "beta"), "loc": ("id", "gamma"), "scale": ("id", "alpha")}),
    # docstring: ln X ~ N(mu, sigma)  vs scipy lognorm s=sigma, scale=exp(mu), loc must be 0
    "LogNormalDistribution": ("lognorm", {"s": ("id", "sigma"), "loc": ("const", 0), "scale": ("exp", "mu")}),
    # docstring N(mu, sigma) vs scipy norm loc=mean, scale=std
    "NormalDistribution": ("norm", {"loc": ("id", "mu"), "scale": ("id", "sigma")}),
    # docstring F=[1-exp(-(x/alpha)^beta)]^delta  vs scipy exponweib F=[1-exp(-x^c)]^a, x/scale, loc must be 0
    "ExponentiatedWeibullDistribution": ("exponweib", {"a": ("id", "delta"), "c": ("id", "beta"), "loc": ("const", 0), "scale": ("id", "alpha")}),
    # docstring f = lambda^(cm) c x^(cm-1) exp(-(lambda x)^c)/Gamma(m)  vs scipy gengamma |c| x^(ca-1) exp(-x^c)/Gamma(a), x/scale -> a=m, c=c, scale=1/lambda
    "GeneralizedGammaDistribution": ("gengamma", {"a": ("id", "m"), "c": ("id", "c"), "loc": ("const", 0), "scale": ("recip", "lambda_")}),
    # docstring exp(kappa cos(x-mu))/(2 pi I0(kappa)) vs scipy vonmises(kappa, loc)
    "VonMisesDistribution": ("vonmises", {"kappa": ("id", "kappa"), "loc": ("id", "mu")}),
    # docstring: mean mu_norm, std sigma_norm of X; ln X ~ N(mu, sigma) with sigma^2=ln(1+s^2/m^2), mu=ln(m/sqrt(1+s^2/m^2))
    "LogNormalNormFitDistribution": ("lognorm", {"s": ("lnf_sigma", None), "loc": ("const", 0), "scale": ("lnf_scale", None)}),
}

METHOD_MAP = {"cdf": "cdf", "icdf": "ppf", "pdf": "pdf", "draw_sample": "rvs"}


def rvs_call(t, dist):
    """(call term with the full slot tuple as arguments, problem or None) for the value a draw_sample returns.

    A family whose scipy ``rvs`` is the generic one must return ``scipy.rvs(*slots, ...)``.  A family whose scipy ``rvs``
    post-processes its draws (vonmises wraps loc + draw into [-pi, pi], read from the scipy sources) must NOT hand its
    location to scipy: the draws follow the family's own cdf only as ``loc + scipy.rvs(shapes, ...)``; that form is turned
    back into the call with loc at its slot."""
    from vstat import scipyinfo
    ov = scipyinfo.rvs_override(dist) if dist else None
    if ov is None:
        return t, None
    sig = scipyinfo.positional_signature(dist)
    k = sig.index("loc")
    if t[0] == "bin" and t[1] == "+" and (t[2][0] == "call" or t[3][0] == "call"):
        call, loc = (t[3], t[2]) if t[3][0] == "call" and not (t[2][0] == "call" and t[2][1][0] == "global" and ".rvs" in t[2][1][1]) else (t[2], t[3])
        if len(call[2]) == k and "loc" not in dict(call[3]):
            return ("call", call[1], tuple(call[2]) + (loc,), call[3]), None
        return call, "the location is added outside AND given to scipy's rvs"
    if t[0] == "call":
        if len(t[2]) > k or "loc" in dict(t[3]):
            return t, (f"scipy.stats.{dist}.rvs post-processes its draws (scipy/stats/_continuous_distns.py:{ov[0]}: {ov[1]}): with a location the sample "
                       f"does not follow the family's own cdf / icdf, which are only shifted by it; draw without location and add it (loc + rvs(shape, ...))")
    return t, None


def P(n):
    return ("param", n)


def A(n):
    return ("attr", SELF, n)


def call(fn, *args):
    return ("call", G(fn), tuple(args), ())


def expected_slot(kind, par, src):
    """Expected term of a slot; src maps a parameter name to its term."""
    if kind == "id":
        return src(par)
    if kind == "const":
        return ("const", par)
    if kind == "exp":
        return call("numpy.exp", src(par))
    if kind == "recip":
        return ("bin", "/", ("const", 1), src(par))
    m, s = src("mu_norm"), src("sigma_norm")
    ratio = ("bin", "/", ("bin", "**", s, ("const", 2)), ("bin", "**", m, ("const", 2)))
    one_plus = ("bin", "+", ("const", 1), ratio)
    if kind == "lnf_sigma":
        return call("numpy.sqrt", call("numpy.log", one_plus))
    if kind == "lnf_scale":
        return call("numpy.exp", call("numpy.log", ("bin", "/", m, call("numpy.sqrt", one_plus))))
    raise AnalysisError(f"unknown slot kind {kind}")


class Family:
    def __init__(self, prog, ci):
        self.prog = prog
        self.ci = ci
        self.name = ci.name
        self.generic = any(c.qualname == GENERIC for c in ci.mro)
        self.m = {}
        for nm in ("__init__", "parameters", "_get_scipy_parameters", "cdf", "icdf", "pdf",
                   "draw_sample", "_fit_mle", "_fit_lsq", "fit"):
            f = prog.lookup_method(ci, nm)
            if f is None:
                raise AnalysisError(f"{ci.qualname} has no method {nm}")
            self.m[nm] = f
        self.param_names = self._param_names()

    def b(self, fn, inline=True):
        return builder(self.prog, fn, self.ci, inline)

    def _param_names(self):
        fn = self.m["parameters"]
        rets = [st for st in cfg_of(fn).all_stmts() if isinstance(st, ast.Return)]
        if len(rets) != 1:
            raise AnalysisError(f"{fn.qualname}: expected one return")
        t = self.b(fn).term(rets[0].value, rets[0])
        if t[0] == "dict":
            names = []
            for k, v in t[1]:
                if k[0] != "const" or not isinstance(k[1], str):
                    raise AnalysisError(f"{fn.qualname}: non-constant key")
                names.append(k[1])
            self.param_values = {k[1]: v for k, v in t[1]}
            return names
        self.param_values = None
        return None  # generic (ScipyDistribution)

    def return_stmt(self, fn):
        rets = [st for st in cfg_of(fn).all_stmts() if isinstance(st, ast.Return) and st.value is not None]
        if len(rets) != 1:
            raise AnalysisError(f"{fn.qualname}: expected exactly one return with a value, found {len(rets)}")
        return rets[0]

    def return_stmts(self, fn):
        rets = [st for st in cfg_of(fn).all_stmts() if isinstance(st, ast.Return) and st.value is not None]
        if not rets:
            raise AnalysisError(f"{fn.qualname}: no return with a value")
        return rets

    def slots(self):
        """Canonical slot tuple of _get_scipy_parameters with each formal bound to itself (joined over all returns)."""
        fn = self.m["_get_scipy_parameters"]
        ts = []
        for r in self.return_stmts(fn):
            t = self.b(fn).term(r.value, r)
            if t[0] != "tuple":
                raise AnalysisError(f"{fn.qualname}: return value is not a tuple display: {show(t)[:80]}")
            ts.append(t[1])
        if len({len(x) for x in ts}) != 1:
            raise AnalysisError(f"{fn.qualname}: returns of different length")
        return tuple(phi(x[k] for x in ts) for k in range(len(ts[0])))

    def scipy_name(self, t):
        """'weibull_min' from global scipy.stats.weibull_min.<m>."""
        if t[0] == "global" and t[1].startswith("scipy.stats."):
            parts = t[1].split(".")
            if len(parts) == 4:
                return parts[2], parts[3]
        return None, None


def families(prog, include_generic=False):
    base = prog.cls(BASE)
    out = []
    for ci in prog.subclasses(base, strict=True):
        if ci.module.name != DIST:
            continue
        fam = Family(prog, ci)
        if fam.generic and not include_generic:
            continue
        out.append(fam)
    if len([f for f in out if not f.generic]) < 7:
        raise AnalysisError(f"expected at least 7 concrete distribution families, found {[f.name for f in out]}")
    return out


def strip_consts(t):
    if t[0] == "phi":
        rest = [a for a in t[1] if a[0] != "const"]
        if rest:
            return phi(rest)
    return t
