"""No public function of the package changes an argument in place.

"Evaluation leaves the model and the caller's arrays unchanged" is decided for the evaluation methods by the effect analysis
(C19.pure).  This sweep is the cheap, package-wide complement: in every PUBLIC function or method (no leading underscore, plus
__init__ / __call__) a parameter other than self / cls that is never re-bound in the function must not be the root of a
subscript / attribute store, an augmented assignment to an element, or a call of a mutating method (append, update, sort, fill, ...).
It is exact for what it reports (the root IS the caller's object) and silent about aliases (`y = x; y[0] = 1`), which the effect
analysis covers where it is armed.  Strings and numbers re-bound by `p += ...` are re-bindings, not mutations: a bare-name
augmented assignment is not reported.
"""
import ast

MUTATORS = {"append", "extend", "insert", "update", "setdefault", "pop", "popitem", "clear", "remove", "sort", "reverse", "fill", "resize",
            "put", "itemset", "add", "discard", "setflags", "partition", "byteswap", "__setitem__", "__delitem__", "drop_duplicates", "sort_values"}


def _root(n):
    while isinstance(n, (ast.Subscript, ast.Attribute)):
        n = n.value
    return n


def _public(name):
    return not name.startswith("_") or name in ("__init__", "__call__")


def _params_of(fn):
    return [a.arg for a in fn.args.posonlyargs + fn.args.args + fn.args.kwonlyargs if a.arg not in ("self", "cls")]


def _first_rebind(fn):
    """parameter -> line of its first re-binding in the function"""
    params = set(_params_of(fn))
    first = {}
    for n in ast.walk(fn):
        tgts = []
        if isinstance(n, ast.Assign):
            tgts = n.targets
        elif isinstance(n, (ast.AugAssign, ast.AnnAssign)):
            tgts = [n.target]
        elif isinstance(n, (ast.For, ast.comprehension)):
            tgts = [n.target]
        elif isinstance(n, ast.withitem) and n.optional_vars is not None:
            tgts = [n.optional_vars]
        for t in tgts:
            for x in ast.walk(t):
                if isinstance(x, ast.Name) and isinstance(x.ctx, ast.Store) and x.id in params:
                    ln = getattr(n, "lineno", getattr(x, "lineno", 0))
                    first[x.id] = min(first.get(x.id, ln), ln)
    return first


def _local_mutations(fn, reaches=None):
    """[(parameter, line, text)]: in-place changes of a parameter while it still is the caller's object.
    reaches(fn, name, node) -> does the parameter's entry value reach this node (reaching definitions); without it: no re-binding on an
    earlier line"""
    params = set(_params_of(fn))
    first = _first_rebind(fn)
    if reaches is None:
        live_at = lambda name, node: name in params and not (name in first and first[name] <= node.lineno)
    else:
        live_at = lambda name, node: name in params and reaches(fn, name, node)
    out = []
    for n in ast.walk(fn):
        if isinstance(n, (ast.Assign, ast.AugAssign)):
            for t in (n.targets if isinstance(n, ast.Assign) else [n.target]):
                for tt in (t.elts if isinstance(t, (ast.Tuple, ast.List)) else [t]):
                    if isinstance(tt, (ast.Subscript, ast.Attribute)):
                        r = _root(tt)
                        if isinstance(r, ast.Name) and live_at(r.id, n):
                            out.append((r.id, n.lineno, ast.unparse(tt)[:60] + " = ..."))
        if isinstance(n, ast.Delete):
            for tt in n.targets:
                if isinstance(tt, (ast.Subscript, ast.Attribute)):
                    r = _root(tt)
                    if isinstance(r, ast.Name) and live_at(r.id, n):
                        out.append((r.id, n.lineno, "del " + ast.unparse(tt)[:60]))
        if isinstance(n, ast.Call) and isinstance(n.func, ast.Attribute) and n.func.attr in MUTATORS:
            r = _root(n.func.value)
            if isinstance(r, ast.Name) and live_at(r.id, n):
                out.append((r.id, n.lineno, ast.unparse(n)[:70]))
    return out


def scan(functions, reaches=None):
    """functions: [(qualname, ast.FunctionDef)] -> (reports, number of (function, parameter) pairs examined)
    report = (qualname of the PUBLIC function whose argument is changed, parameter, line, text).
    A private helper that changes its parameter is reported through the public functions that hand it their own, not yet re-bound,
    parameter (bare name), through at most three private levels: an out-parameter filled for a local object is not a finding."""
    by_name = {}
    for q, fn in functions:
        by_name.setdefault(fn.name, []).append((q, fn))
    muts = {q: _local_mutations(fn, reaches) for q, fn in functions}
    # mutated[q] = {parameter: (line, text)} including what callees do to it
    mutated = {q: {} for q, _ in functions}
    for q, fn in functions:
        for p_, ln, text in muts[q]:
            mutated[q].setdefault(p_, (ln, text))
    for _round in range(3):
        changed = False
        for q, fn in functions:
            first = _first_rebind(fn)
            params = set(_params_of(fn))
            for call in ast.walk(fn):
                if not isinstance(call, ast.Call):
                    continue
                cname = call.func.attr if isinstance(call.func, ast.Attribute) else (call.func.id if isinstance(call.func, ast.Name) else None)
                cands = [(cq, cfn) for cq, cfn in by_name.get(cname, []) if not _public(cfn.name)]
                if len(cands) != 1:
                    continue
                cq, cfn = cands[0]
                cpos = _params_of(cfn)
                passed = [(cpos[i], a) for i, a in enumerate(call.args) if i < len(cpos)] + [(k.arg, k.value) for k in call.keywords if k.arg in cpos]
                for target, a in passed:
                    still = (reaches(fn, a.id, call) if reaches is not None else not (a.id in first and first[a.id] < call.lineno)) if isinstance(a, ast.Name) and a.id in params else False
                    if still and target in mutated[cq]:
                        if a.id not in mutated[q]:
                            ln, text = mutated[cq][target]
                            mutated[q][a.id] = (call.lineno, f"{cname}(...) changes it: {text}")
                            changed = True
        if not changed:
            break
    reports = []
    pairs = 0
    for q, fn in functions:
        if not _public(fn.name):
            continue
        pairs += len(_params_of(fn))
        for p_, (ln, text) in sorted(mutated[q].items()):
            reports.append((q, p_, ln, text))
    return reports, pairs


_POSITIVE = '''
def fill(descriptions, data):
    for i in range(len(descriptions)):
        if descriptions[i] is None:
            descriptions[i] = {}
    data.sort()
    return descriptions
def fine(descriptions, path):
    descriptions = list(descriptions)
    descriptions[0] = 1
    path += ".txt"
    out = []
    _private(out)
    return descriptions
def _private(out):
    out.append(1)
def through(items):
    _private(items)
'''


def self_test():
    tree = ast.parse(_POSITIVE)
    reports, _ = scan([(f.name, f) for f in tree.body if isinstance(f, ast.FunctionDef)])
    return {(r[0], r[1]) for r in reports} == {("fill", "descriptions"), ("fill", "data"), ("through", "items")}
