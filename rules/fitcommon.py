"""Shared analysis of _fit_mle for C11 / C12."""
import ast

from vstat.loader import AnalysisError
from vstat.terms import dict_entries, builder, show, SELF, NONE, G, alts, walk, mentions, phi
from vstat.guards import path_conditions
from vstat.cfg import cfg_of
from vstat import algebra, scipyinfo
from .kwdict import local_dict_stores, SharedDict
from .distfam import SLOT_TABLE, P, A, expected_slot


class MleInfo:
    """What _fit_mle of one family does (scipy-backed or closed form)."""

    def __init__(self, prog, fam):
        self.fam = fam
        fn = fam.m["_fit_mle"]
        self.fn = fn
        self.b = fam.b(fn)
        self.cfg = cfg_of(fn)
        self.pcs = path_conditions(prog, fn, self.b)
        self.fit_stmt = None
        self.fit_call = None
        for st in self.cfg.all_stmts():
            val = getattr(st, "value", None)
            if isinstance(st, (ast.Assign, ast.Expr, ast.Return)) and isinstance(val, ast.Call):
                t = self.b.term(val, st)
                if t[0] == "call" and t[1][0] == "global" and t[1][1].startswith("scipy.stats.") and t[1][1].endswith(".fit"):
                    if self.fit_stmt is not None:
                        raise AnalysisError(f"{fn.qualname}: more than one scipy fit call")
                    self.fit_stmt, self.fit_call = st, t
        self.dist = self.fit_call[1][1].split(".")[2] if self.fit_call else None
        self.kw_stores = []  # (key, value term, pc, stmt)
        self.kw_name = None
        self.kw_shared = None
        if self.fit_stmt is not None:
            call = self.fit_stmt.value
            for k in call.keywords:
                if k.arg is None:
                    if not isinstance(k.value, ast.Name):
                        raise AnalysisError(f"{fn.qualname}: ** argument of fit is not a local name")
                    self.kw_name = k.value.id
            if self.kw_name:
                self._collect_kw()

    def _collect_kw(self):
        self.kw_shared = None
        try:
            self.kw_stores = local_dict_stores(self.fn, self.b, self.pcs, self.kw_name)
        except SharedDict as e:
            self.kw_stores = []
            self.kw_shared = (e.term, e.stmt)

    def shared_keywords(self, rep, rule):
        """Obligation: the dict of fit keywords is built in this call (a dict kept on the class / object / module and
        filled by stores carries the fixed-parameter keywords of earlier fits into this one)."""
        inst = f"{self.fam.ci.qualname}._fit_mle:fresh-keywords"
        if getattr(self, "kw_shared", None):
            from vstat.terms import show
            t, st = self.kw_shared
            rep.fail(rule, inst, self.fn.where(st), f"the keyword dict handed to scipy fit is {show(t)[:80]}, an object that outlives the call and is filled by stores: "
                     "keywords set for one fit (f0 / floc / fscale of a fixed parameter) are still set in the next fit of any object sharing it")
            return False
        rep.ok(rule, inst, self.fn.where(self.fit_stmt), "fit keywords are collected in a dict created in the call")
        return True

    def slot_of(self, par):
        """(index, scipy name, kind) of the slot parameter par feeds, from the frozen table."""
        dist, table = SLOT_TABLE[self.fam.name]
        sig = scipyinfo.positional_signature(dist)
        for i, s in enumerate(sig):
            if s in table and table[s][1] == par and table[s][0] != "const":
                return i, s, table[s][0]
        return None

    def unpack_targets(self):
        st = self.fit_stmt
        if not isinstance(st, ast.Assign) or len(st.targets) != 1:
            return None
        tg = st.targets[0]
        if isinstance(tg, (ast.Tuple, ast.List)):
            elts = list(tg.elts)
            # 'a_hat, b_hat, _ = fit(...)' followed by 'self.a = a_hat' (possibly 'a_hat if self.f_a is None else self.f_a'):
            # the attribute the temporary is stored in is the target
            out = []
            for e in elts:
                rep_ = e
                if isinstance(e, ast.Name) and e.id != "_":
                    uses = []
                    for s2 in self.cfg.all_stmts():
                        if isinstance(s2, ast.Assign) and len(s2.targets) == 1 and isinstance(s2.targets[0], ast.Attribute) and s2 is not st:
                            v = s2.value
                            cands = [v] + ([v.body, v.orelse] if isinstance(v, ast.IfExp) else [])
                            if any(isinstance(c_, ast.Name) and c_.id == e.id for c_ in cands):
                                defs = [d for d in self.b.rd.reaching(e.id, self.cfg.node(s2)) if d.kind != "del"]
                                if len(defs) == 1 and defs[0].stmt is st:
                                    uses.append(s2.targets[0])
                    if len(uses) == 1:
                        rep_ = uses[0]
                out.append(rep_)
            return out
        if isinstance(tg, ast.Name):
            # result kept in a temporary: 'a, b, c = fitted' or 'self.a = fitted[0]; ...' (the temporary bound only by the fit)
            rd = self.b.rd
            by_pos = {}
            for s2 in self.cfg.all_stmts():
                if not isinstance(s2, ast.Assign) or len(s2.targets) != 1:
                    continue
                v = s2.value
                src = v if isinstance(v, ast.Name) else v.value if isinstance(v, ast.Subscript) and isinstance(v.value, ast.Name) else None
                if src is None or src.id != tg.id:
                    continue
                defs = [d for d in rd.reaching(tg.id, self.cfg.node(s2)) if d.kind != "del"]
                if len(defs) != 1 or defs[0].stmt is not st:
                    continue
                if isinstance(v, ast.Name) and isinstance(s2.targets[0], (ast.Tuple, ast.List)):
                    return list(s2.targets[0].elts)
                if isinstance(v, ast.Subscript) and isinstance(v.slice, ast.Constant) and isinstance(v.slice.value, int) and v.slice.value >= 0:
                    by_pos[v.slice.value] = s2.targets[0]
            if by_pos:
                return [by_pos.get(i, ast.Name(id="_", ctx=ast.Store())) for i in range(max(by_pos) + 1)]
        return None
