"""C01 - IFORM / ISORM contours are the inverse-Rosenblatt image of the beta-sphere (wiring)."""
import ast

from vstat.loader import AnalysisError
from vstat.terms import CMP, builder, show, SELF, NONE, G, alts, walk, mentions, phi, strip_none, FULL
from vstat.guards import path_conditions
from vstat.cfg import cfg_of, EXIT
from vstat.dataflow import rd_of
from vstat.sigs import bind
from vstat import algebra
from .chain import check_chain, model_attr, column_stores
from .ctor import ctor_stores

CONT = "virocon.contours"
EXPL = ("IDX/FLOW/FORM/TS rules on IFORMContour._compute, ISORMContour._compute and NSphere: C01.beta (beta = Phi^-1(1-alpha) / "
        "sqrt(chi2^-1(1-alpha; n_dim)) with alpha = self.alpha, accepted spellings ppf(1-a), isf(a), -ppf(a)), C01.sphere (circle = "
        "(cos, sin) of linspace(0, 2pi, num=n_points, endpoint=False) for n_dim == 2, NSphere(dim=n_dim, n_samples=n_points) otherwise, "
        "scaled by the same beta), C01.u2p (standard normal cdf without loc/scale), C01.chain (per column: distributions[K].icdf of "
        "probability column K given column conditional_on[K] of the matrix being filled, on the right None-branch, all columns), "
        "C01.tm (TransformedModel branch), C01.result (self.coordinates is the filled matrix), C01.nsphere (renormalisation after every "
        "move, normalised start, literal seed, dim/n_samples not swapped).")
ASSUME = ["icdf inverts cdf (scipy, C05 residue)", "conditional_on[i] < i (C18 guard)",
          "distinctness of the relaxed NSphere directions and numerical tolerance are not decided"]

ALPHA = ("attr", SELF, "alpha")
ONE_MINUS_ALPHA = ("bin", "-", ("const", 1), ALPHA)


def _is_quantile(t, dist, extra=None):
    """t is <dist>^-1(1-alpha[, extra...]) in one of the accepted spellings."""
    if t[0] == "neg":
        inner = t[1]
        bd = bind(inner)
        if bd and inner[1] == G(f"scipy.stats.{dist}.ppf") and dist == "norm":
            return set(bd) == {"q"} and algebra.same(bd["q"], ALPHA)
        return False
    if t[0] != "call" or t[1][0] != "global":
        return False
    bd = bind(t)
    if bd is None:
        return False
    want_keys = {"q"} | set(extra or {})
    if set(bd) != want_keys:
        return False
    for k, v in (extra or {}).items():
        if bd[k] not in v:
            return False
    if t[1] == G(f"scipy.stats.{dist}.ppf"):
        return algebra.same(bd["q"], ONE_MINUS_ALPHA)
    if t[1] == G(f"scipy.stats.{dist}.isf"):
        return algebra.same(bd["q"], ALPHA)
    return False


def _sqrt_arg(t):
    if t[0] == "call" and t[1] == G("numpy.sqrt") and len(t[2]) == 1 and not t[3]:
        return t[2][0]
    if t[0] == "bin" and t[1] == "**" and algebra.same(t[3], ("const", 0.5)):
        return t[2]
    return None


def beta_rule(prog, rep, fn, b, kind):
    q = fn.qualname
    nd = model_attr("model", "n_dim")
    stores = [st for st in cfg_of(fn).all_stmts() if isinstance(st, ast.Assign) and isinstance(st.targets[0], ast.Attribute)
              and st.targets[0].attr == "beta" and isinstance(st.targets[0].value, ast.Name) and st.targets[0].value.id == "self"]
    if len(stores) != 1:
        raise AnalysisError(f"{q}: expected one store to self.beta, found {len(stores)}")
    t = b.term(stores[0].value, stores[0])
    site = fn.where(stores[0])
    if kind == "iform":
        ok = _is_quantile(t, "norm")
        rep.check(ok, "C01.beta", f"{q}:beta", site, "beta = norm.ppf(1 - self.alpha)",
                  f"IFORM beta must be Phi^-1(1 - self.alpha) (norm.ppf(1-a) / norm.isf(a) / -norm.ppf(a), no loc/scale); found {show(t)[:120]}")
    else:
        inner = _sqrt_arg(t)
        ok = inner is not None and _is_quantile(inner, "chi2", {"df": {nd}})
        rep.check(ok, "C01.beta", f"{q}:beta", site, "beta = sqrt(chi2.ppf(1 - self.alpha, n_dim))",
                  f"ISORM beta must be sqrt(chi2^-1(1 - self.alpha; df = self.model.n_dim)); found {show(t)[:140]}")
    return t


def sphere_rule(prog, rep, fn, b, beta):
    q = fn.qualname
    cfg = cfg_of(fn)
    pcs = path_conditions(prog, fn, b)
    nd = model_attr("model", "n_dim")
    npts = ("attr", SELF, "n_points")
    sp_store = [st for st in cfg.all_stmts() if isinstance(st, ast.Assign) and isinstance(st.targets[0], ast.Attribute)
                and st.targets[0].attr == "sphere_points"]
    if len(sp_store) != 1 or not isinstance(sp_store[0].value, ast.Name):
        raise AnalysisError(f"{q}: expected self.sphere_points = <local>")
    from vstat.terms import guarded_alts
    bg = builder(prog, fn, inline=True, guarded=True)
    two = CMP("==", nd, ("const", 2))
    seen = {"circle": False, "nsphere": False}
    for pc, t in guarded_alts(bg.term(sp_store[0].value, sp_store[0])):
        pc = tuple(pc) + tuple(pcs.of(sp_store[0]))
        site = fn.where(sp_store[0])
        # (an in-place ``points *= beta`` on a freshly built, unshared NSphere array is behaviour preserving; sharing is C01.nsphere:own-points)
        if not (t[0] == "bin" and t[1] == "*"):
            rep.fail("C01.sphere", f"{q}:scale", site, f"sphere points must be beta * unit directions, found {show(t)[:120]}")
            continue
        l, r = t[2], t[3]
        unit = r if l == beta else l if r == beta else None
        if unit is None:
            rep.fail("C01.sphere", f"{q}:scale", site, f"sphere points must be scaled by the same beta that is stored in self.beta; found {show(t)[:140]}")
            continue
        if two in pc:
            seen["circle"] = True
            phi_ = ("call", G("numpy.linspace"), (), ())
            ok = False
            why = ""
            if unit[0] == "cols" and len(unit[1]) == 2:
                c, s = unit[1]
                if c[0] == "call" and c[1] == G("numpy.cos") and s[0] == "call" and s[1] == G("numpy.sin") and c[2] == s[2] and len(c[2]) == 1:
                    ang = c[2][0]
                    bd = bind(ang) if ang[0] == "call" and ang[1] == G("numpy.linspace") else None
                    if bd is None:
                        why = f"angles must come from np.linspace, found {show(ang)[:80]}"
                    else:
                        probs = []
                        if not algebra.same(bd.get("start", NONE), ("const", 0)):
                            probs.append("start must be 0 (first point on the positive first axis)")
                        if not algebra.same(bd.get("stop", NONE), ("bin", "*", ("const", 2), G("numpy.pi"))):
                            probs.append("stop must be 2*pi")
                        if bd.get("num") != npts:
                            probs.append(f"num must be self.n_points, found {show(bd.get('num', NONE))}")
                        if bd.get("endpoint") != ("const", False):
                            probs.append("endpoint must be False (otherwise the first direction is repeated)")
                        if set(bd) - {"start", "stop", "num", "endpoint"}:
                            probs.append(f"unexpected linspace arguments {sorted(set(bd) - {'start', 'stop', 'num', 'endpoint'})}")
                        ok = not probs
                        why = "; ".join(probs)
                else:
                    why = f"column 0 must be cos(phi) and column 1 sin(phi) of the same angles; found {show(unit)[:140]}"
            else:
                why = f"2-D unit directions must be two columns (cos phi, sin phi); found {show(unit)[:140]}"
            rep.check(ok, "C01.sphere", f"{q}:circle", site, "cols(cos phi, sin phi), phi = linspace(0, 2pi, n_points, endpoint=False)", why)
        elif ("not", two) in pc:
            seen["nsphere"] = True
            ok = False
            why = f"n-D unit directions must be NSphere(dim=n_dim, n_samples=n_points).unit_sphere_points; found {show(unit)[:140]}"
            if unit[0] == "attr" and unit[2] == "unit_sphere_points" and unit[1][0] == "call" and unit[1][1] == G("virocon._nsphere.NSphere"):
                bd = bind(unit[1], ["dim", "n_samples"])
                ok = bd == {"dim": nd, "n_samples": npts}
            rep.check(ok, "C01.sphere", f"{q}:nsphere", site, "NSphere(dim=n_dim, n_samples=n_points).unit_sphere_points", why)
        else:
            rep.fail("C01.sphere", f"{q}:branch", site, f"sphere construction not selected by 'n_dim == 2': path condition {[show(l)[:40] for l in pc]}")
    for k, v in seen.items():
        if not v:
            rep.fail("C01.sphere", f"{q}:{k}", fn.where(), f"no {k} construction found on the {'n_dim == 2' if k == 'circle' else 'n_dim != 2'} branch")
    return b.term(sp_store[0].value, sp_store[0])


def run(prog, rep):
    rep.explanation = EXPL
    rep.assumptions = ASSUME
    nd = model_attr("model", "n_dim")
    for cls, kind in (("IFORMContour", "iform"), ("ISORMContour", "isorm")):
        fn = prog.func(f"{CONT}.{cls}._compute")
        rep.analysed(fn)
        b = builder(prog, fn)
        beta = beta_rule(prog, rep, fn, b, kind)
        sphere = sphere_rule(prog, rep, fn, b, beta)
        pmat = ("call", G("scipy.stats.norm.cdf"), (sphere,), ())

        def own(s, arg, pmat=pmat, sphere=sphere):
            want1 = ("col", pmat, s.K)
            want2 = ("call", G("scipy.stats.norm.cdf"), (("col", sphere, s.K),), ())
            if s.row is not None:
                want1 = ("sub", want1, s.row)
                want2 = ("sub", want2, s.row)
            return arg in (want1, want2), f"column K of scipy.stats.norm.cdf(sphere_points) (no loc/scale){' at the same row' if s.row is not None else ''}"

        stores = check_chain(prog, rep, "C01.chain", fn, "icdf", "model", own_arg=own,
                             given_matrix=lambda s: s.base, label="coordinates")
        # row loops of ISORM must run over all points
        for s in stores:
            if s.row is not None:
                ok = s.row[0] == "idx" and s.row[2] == "range" and s.row[3] == (("attr", SELF, "n_points"),)
                rep.check(ok, "C01.chain", f"{fn.qualname}:rows", fn.where(s.st), "row loop over range(n_points)",
                          f"per-point loop must run over range(self.n_points), found {show(s.row)[:80]}")
        # C01.result
        bases = {s.base for s in stores}
        cs = [st for st in cfg_of(fn).all_stmts() if isinstance(st, ast.Assign) and isinstance(st.targets[0], ast.Attribute)
              and st.targets[0].attr == "coordinates"]
        ok = len(cs) == 1 and len(bases) == 1 and b.term(cs[0].value, cs[0]) in bases
        rep.check(ok, "C01.result", f"{fn.qualname}:coordinates", fn.where(cs[0]) if cs else fn.where(),
                  "self.coordinates is the matrix filled by the chain", "self.coordinates must be assigned the very matrix the icdf chain filled")
        # allocation shape: n_points rows, n_dim columns
        base = next(iter(bases)) if bases else None
        if base is not None:
            okshape = (base == ("call", G("numpy.empty_like"), (pmat,), ())
                       or (base[0] == "call" and base[1] in (G("numpy.zeros"), G("numpy.empty"), G("numpy.ones")) and base[2][:1] == (("tuple", (("attr", SELF, "n_points"), nd)),)))
            rep.check(okshape, "C01.result", f"{fn.qualname}:shape", fn.where(), "matrix is (n_points, n_dim)",
                      f"the filled matrix must have n_points rows and n_dim columns; allocation {show(base)[:100]}")
        if kind == "iform":
            rep.part(tm_rule, prog, rep, fn, b, pmat)
    rep.part(nsphere, prog, rep)
    for cls in ("IFORMContour", "ISORMContour"):
        rep.part(ctor_stores, prog, rep, "C01.ctor", f"{CONT}.{cls}", ["model", "alpha", "n_points"])
    rep.expect_min("C01.ctor", 4)
    rep.expect_min("C01.beta", 2)
    rep.expect_min("C01.sphere", 4)
    rep.expect_min("C01.chain", 9)
    rep.expect_min("C01.tm", 3)
    rep.expect_min("C01.result", 4)
    rep.expect_min("C01.nsphere", 7)
    from .purity import row as _stateless_row
    rep.part(_stateless_row, prog, rep, "C01", 4)
    # the contour is the image of the sphere under the (conditional) icdf of every variable: the wiring of every family's icdf
    # and of ConditionalDistribution.icdf is filed here too
    from .shared import template_rows, conditional_rows
    template_rows(prog, rep, "C01.template", ["icdf"], 50)
    conditional_rows(prog, rep, "C01.conditional", ["icdf"], 4)

def tm_rule(prog, rep, fn, b, pmat):
    q = fn.qualname
    nd = model_attr("model", "n_dim")
    m = ("attr", SELF, "model")
    found = {"marg": False, "cond": False}
    for sink in ("marginal_icdf", "conditional_icdf"):
        for s in column_stores(prog, fn, b, sink):
            site = fn.where(s.st)
            args, kw = s.call[2], dict(s.call[3])
            recv = s.call[1][1]
            probs = []
            if recv != m:
                probs.append(f"receiver must be self.model, found {show(recv)[:60]}")
            if not args or args[0] != ("col", pmat, s.K):
                probs.append("first argument must be probability column K")
            if len(args) < 2 or args[1] != s.K:
                probs.append(f"dimension argument must be the column index K, found {show(args[1])[:40] if len(args) > 1 else None}")
            if sink == "marginal_icdf":
                found["marg"] = True
                if s.K != ("const", 0):
                    probs.append("marginal icdf is exact only for column 0")
                rep.check(not probs, "C01.tm", f"{q}:tm:marginal", site, "coordinates[:, 0] = model.marginal_icdf(p[:, 0], 0)", "; ".join(probs))
            else:
                found["cond"] = True
                g = args[2] if len(args) > 2 else kw.get("given")
                want = ("col", s.base, ("not", CMP("==", ("call", G("numpy.arange"), (nd,), ()), s.K)))
                if g != want:
                    probs.append(f"given must be all other columns of the matrix being filled: {show(want)[:90]}; found {show(g)[:90] if g else None}")
                rep.check(not probs, "C01.tm", f"{q}:tm:conditional", site, "coordinates[:, i] = model.conditional_icdf(p[:, i], i, coordinates[:, arange(n_dim) != i])", "; ".join(probs))
                # at step i only the columns 0..i-1 of the (np.empty) matrix have been written: 'all other columns' also reads the columns
                # i+1.. that are still uninitialised, unless the model has exactly two variables
                from vstat.guards import path_conditions as _pcs, exception_name as _exc
                pc_ = _pcs(prog, fn, b)
                two_only = any(isinstance(st_, ast.Raise) and any(l_ in (("not", CMP("==", nd, ("const", 2))), CMP(">", nd, ("const", 2))) for l_ in pc_.of(st_))
                               for st_ in cfg_of(fn).all_stmts())
                earlier_only = g is not None and g[0] == "col" and g[1] == s.base and g[2] == ("slice", NONE, s.K, NONE)
                rep.check(two_only or earlier_only, "C01.tm", f"{q}:tm:initialised", site, "the conditioning columns read at step i were all written before",
                          "the conditioning values are 'all other columns' of a matrix allocated with np.empty: for more than two variables step i also reads the "
                          "columns i+1.., which have not been computed yet (uninitialised memory), and nothing restricts the TransformedModel branch to two variables")
    for k, v in found.items():
        if not v:
            rep.fail("C01.tm", f"{q}:tm:{k}:missing", fn.where(), f"TransformedModel branch has no {k} icdf store")


def nsphere(prog, rep):
    NS = "virocon._nsphere.NSphere"
    init = prog.func(f"{NS}.__init__")
    b = builder(prog, init)
    rep.analysed(init)
    st_dim = st_n = False
    for st in cfg_of(init).all_stmts():
        if isinstance(st, ast.Assign) and isinstance(st.targets[0], ast.Attribute):
            a = st.targets[0].attr
            v = b.term(st.value, st)
            if a == "dim":
                st_dim = v == ("param", "dim")
            if a == "n_samples":
                st_n = v == ("param", "n_samples")
    rep.check(st_dim and st_n, "C01.nsphere", f"{NS}.__init__:dims", init.where(), "self.dim = dim, self.n_samples = n_samples",
              "NSphere must store dim and n_samples under their own names (swapping them transposes the point set)")
    # every instance relaxes its own freshly generated points: no point set is shared between instances
    from vstat.effects import Effects
    eff = Effects(prog)
    shared = []
    n_st = 0
    for mname, m in prog.cls(NS).methods.items():
        bm = builder(prog, m, inline=False)
        for st in cfg_of(m).all_stmts():
            if isinstance(st, ast.Assign):
                for tg in st.targets:
                    if isinstance(tg, ast.Attribute) and tg.attr == "unit_sphere_points" and isinstance(tg.value, ast.Name) and tg.value.id == "self":
                        n_st += 1
                        org = eff.origins(bm.term(st.value, st), m)
                        org = {o for o in org if o != ("selfattr", "unit_sphere_points")}
                        if org:
                            shared.append(f"{mname}:{st.lineno} <- {sorted(org)}")
    relax = [st for st in cfg_of(init).all_stmts() if isinstance(st, ast.Expr) and isinstance(st.value, ast.Call) and isinstance(st.value.func, ast.Attribute) and st.value.func.attr == "_relax_points"]
    uncond = len(relax) == 1 and cfg_of(init).dominates(cfg_of(init).node(relax[0]), EXIT)
    rep.check(not shared and uncond and n_st >= 2, "C01.nsphere", f"{NS}:own-points", init.where(), "each NSphere owns freshly generated, freshly relaxed points",
              f"the point set of an NSphere must be generated and relaxed for this instance (no cache / shared array): shared sources {shared}; relaxation unconditional={uncond}")
    rnd = prog.func(f"{NS}._random_unit_sphere_points")
    rep.analysed(rnd)
    br = builder(prog, rnd)
    ret = [s for s in cfg_of(rnd).all_stmts() if isinstance(s, ast.Return)][0]
    t = br.term(ret.value, ret)
    ok = False
    seed_ok = False
    why = f"must return points / row-norm(points); found {show(t)[:160]}"
    if t[0] == "bin" and t[1] == "/":
        pts, den = t[2], t[3]
        bd = bind(den) if den[0] == "call" and den[1] == G("numpy.linalg.norm") else None
        if bd and bd.get("x") == pts and bd.get("axis") == ("const", 1) and bd.get("keepdims") == ("const", True) and set(bd) == {"x", "axis", "keepdims"}:
            if pts[0] == "call" and pts[1][0] == "attr" and pts[1][2] in ("normal", "standard_normal"):
                size = dict(pts[3]).get("size")
                shape_ok = size in (("tuple", (("attr", SELF, "n_samples"), ("attr", SELF, "dim"))), ("tuple", (("param", "n_samples"), ("param", "dim"))))
                gen = pts[1][1]
                if gen[0] == "call" and gen[1] in (G("numpy.random.RandomState"), G("numpy.random.default_rng")):
                    sd = dict(gen[3]).get("seed", gen[2][0] if gen[2] else None)
                    seed_ok = sd is not None and sd[0] == "const" and isinstance(sd[1], int)
                ok = shape_ok
                if not shape_ok:
                    why = f"random points must have shape (n_samples, dim), found size={show(size) if size else None}"
    rep.check(ok, "C01.nsphere", f"{NS}._random_unit_sphere_points:normalised", rnd.where(ret), "points / ||points|| row-wise, shape (n_samples, dim)", why)
    rep.check(seed_ok, "C01.nsphere", f"{NS}._random_unit_sphere_points:seed", rnd.where(ret), "generator seeded with a literal",
              "the start points must come from a generator seeded with a literal (the n-D contour is documented as deterministic)")
    # relaxation: every in-place move is followed by renormalisation before the points are read again
    rel = prog.func(f"{NS}._relax_points")
    rep.analysed(rel)
    bl = builder(prog, rel)
    cfg = cfg_of(rel)
    USP = ("attr", SELF, "unit_sphere_points")

    def is_usp_target(t):
        return isinstance(t, ast.Attribute) and t.attr == "unit_sphere_points" and isinstance(t.value, ast.Name) and t.value.id == "self"

    moves, renorms, readers, finals = [], [], [], []
    for n, st in cfg.stmt.items():
        if isinstance(st, ast.AugAssign) and is_usp_target(st.target):
            v = bl.term(st.value, st)
            bd = bind(v) if v[0] == "call" and v[1] == G("numpy.linalg.norm") else None
            if isinstance(st.op, ast.Div) and bd and bd.get("x") == USP and bd.get("axis") == ("const", 1) and bd.get("keepdims") == ("const", True):
                renorms.append(n)
            else:
                moves.append(n)
        elif isinstance(st, ast.Assign) and any(is_usp_target(t) for t in st.targets):
            v = bl.term(st.value, st)
            # x = x / norm(x)  also counts as renormalisation
            if v[0] == "bin" and v[1] == "/" and v[2] == USP and v[3][0] == "call" and v[3][1] == G("numpy.linalg.norm"):
                bd = bind(v[3])
                if bd and bd.get("x") == USP and bd.get("axis") == ("const", 1) and bd.get("keepdims") == ("const", True):
                    renorms.append(n)
                    continue
            finals.append((n, st, v))
        else:
            exprs = [st.test] if isinstance(st, (ast.If, ast.While)) else [st.iter] if isinstance(st, ast.For) else [st] if isinstance(st, (ast.Assign, ast.Expr, ast.AugAssign, ast.Return)) else []
            for e in exprs:
                for node in ast.walk(e):
                    if isinstance(node, ast.Attribute) and isinstance(node.value, ast.Name) and node.value.id == "self" and isinstance(node.ctx, ast.Load):
                        readers.append(n)
    rep.check(bool(moves), "C01.nsphere", f"{NS}._relax_points:moves", rel.where(), f"{len(moves)} in-place move(s) found",
              "no in-place move of unit_sphere_points found: relaxation anchor vanished")
    for mnode in moves:
        st = cfg.stmt[mnode]
        bad = cfg.reachable_avoiding(mnode, set(readers) | {EXIT} | {n for n, _, _ in finals}, renorms)
        rep.check(not bad, "C01.nsphere", f"{NS}._relax_points:renorm", rel.where(st),
                  "move is followed by division by the row norm before any read / exit",
                  "after this in-place move the points are read (energy, forces, best_state copy) or the function exits without being renormalised to unit length")
    for n, st, v in finals:
        okf = all(a[0] == "call" and a[1] in (G("numpy.copy"),) and a[2] == (USP,) or (a[0] == "call" and a[1] == ("attr", USP, "copy")) for a in alts(v))
        rep.check(okf, "C01.nsphere", f"{NS}._relax_points:best", rel.where(st), "final points are a copy of a renormalised state",
                  f"the final unit_sphere_points must be a copy of a (renormalised) state, found {show(v)[:120]}")
