"""C18 - ill-formed model, fit and contour specifications are rejected, not computed (guard table)."""
import ast

from vstat.loader import AnalysisError
from vstat.terms import builder, CMP, ordered, show, SELF, NONE, G, alts, walk, mentions, phi, strip_none
from vstat.guards import path_conditions, exception_name
from vstat.cfg import cfg_of, EXIT
from . import c06, c10, c12, c13

JM = "virocon.jointmodels"
GHM = f"{JM}.GlobalHierarchicalModel"
CD = "virocon.distributions.ConditionalDistribution"
CT = "virocon.contours"
IV = "virocon.intervals"
P = lambda n: ("param", n)
EXPL = ("Guard table: one row per malformation class of the statement = (entry point, tested quantity as canonical path-condition literal, "
        "exception class, dominance of the guard over the computation of its entry point). For every row the check finds the raise whose "
        "path condition tests that quantity, compares the exception class and asks the CFG dominator tree that the guard precedes every "
        "anchor computation (model construction, fitting loop, sampling, grid evaluation). The conditional_on[i] in [0, i) row evaluates the "
        "guard's path condition on a finite table of abstract values of conditional_on; rows shared with C06.finite, C10.refs/C10.min, "
        "C12.dispatch and C13.weights re-run those rules under this property's id.")
ASSUME = ["the table is the statement's list of malformation classes; other malformed inputs are not claimed",
          "exceptions raised by numpy/scipy themselves for malformed numeric input are not part of the table"]


class Ctx:
    def __init__(self, prog, q):
        self.fn = prog.func(q)
        self.b = builder(prog, self.fn, inline=False)
        self.pcs = path_conditions(prog, self.fn, self.b)
        self.cfg = cfg_of(self.fn)
        self.raises = [(st, exception_name(st, self.b), self.pcs.of(st)) for st in self.cfg.all_stmts() if isinstance(st, ast.Raise)
                       and not any(l in (("const", False), ("const", 0), ("const", None)) for l in self.pcs.of(st))]

    def top(self, st):
        """Outermost non-loop compound statement enclosing st inside its innermost loop (the guard's header)."""
        enc = self.cfg.enclosing(st)
        cur = st
        for par, which in reversed(enc):
            if isinstance(par, (ast.For, ast.While)):
                break
            cur = par
        return cur


def lit_in(key, container_pred=None, positive=True):
    def f(l):
        neg = l[0] == "not"
        core = l[1] if neg else l
        if core[0] == "cmp" and core[1] == "in" and core[2] == ("const", key) and (neg != positive):
            return container_pred is None or container_pred(core[3])
        return False
    return f


def any_lit(pc, pred):
    return any(pred(l) for l in pc)


def row(rep, prog, name, q, exc, pred, desc, anchors=None, n_expected=1):
    """pred(pc) -> bool selects the raise; anchors(ctx) -> list of stmts the guard must dominate."""
    c = Ctx(prog, q)
    rep.analysed(c.fn)
    hits = [(st, e, pc) for st, e, pc in c.raises if pred(pc)]
    inst = f"{q}:{name}"
    if not hits:
        # the check may have been moved into a private helper that this function calls (also from inside a comprehension):
        # the guard is then the statement that makes the call
        for call_st, callee in _helper_calls(prog, c):
            hc = Ctx(prog, callee.qualname)
            hh = [(st_, e_, pc_) for st_, e_, pc_ in hc.raises if pred(pc_)]
            if hh:
                rep.analysed(hc.fn)
                hits = [(call_st, hh[0][1], hh[0][2])]
                break
    if not hits:
        rep.fail("C18.guard", inst, c.fn.where(), f"no guard found that rejects: {desc}")
        return None
    st, e, pc = hits[0]
    site = c.fn.where(st)
    if e != exc:
        rep.fail("C18.guard", inst, site, f"{desc}: must raise {exc}, raises {e}")
        return None
    if anchors is not None:
        an = anchors(c)
        if not an:
            rep.fail("C18.guard", inst, site, f"{desc}: the computation this guard must precede was not found (anchor vanished)")
            return None
        g = c.cfg.node(c.top(st))
        lps = c.cfg.enclosing_loops(st)
        if lps and not all(c.cfg.enclosing_loops(a) and c.cfg.enclosing_loops(a)[0] is lps[0] for a in an):
            # a per-element guard inside a loop: the whole loop must run (no break) before the anchors
            if any(isinstance(n, ast.Break) for n in ast.walk(lps[0])):
                rep.fail("C18.guard", inst, site, f"{desc}: the checking loop can be left early (break), so not every element is checked")
                return None
            g = c.cfg.node(lps[0])
        def under_negation(a):
            """the computation sits in the branch where the rejected condition is FALSE (`if well_formed: compute ... ; raise`): the negations of
            its own path literals satisfy the rejection predicate"""
            neg = tuple(l[1] if l[0] == "not" else ("not", l) for l in c.pcs.of(a))
            try:
                return bool(neg) and bool(pred(neg))
            except Exception:
                return False
        late = [a for a in an if not c.cfg.dominates(g, c.cfg.node(a)) and not under_negation(a)]
        if late:
            rep.fail("C18.guard", inst, site, f"{desc}: the guard does not dominate the computation at line(s) {[a.lineno for a in late]} - a malformed input is computed before / instead of being rejected")
            return None
    rep.ok("C18.guard", inst, site, f"{desc} -> {exc}")
    return c, st


def _helper_calls(prog, c, depth=0):
    """(statement of c.fn, private helper it calls) pairs, helpers of helpers included (one level)."""
    out = []
    mod = c.fn.qualname.rsplit(".", 2 if c.fn.cls is not None else 1)[0]
    for st in c.cfg.all_stmts():
        exprs = [st.test] if isinstance(st, (ast.If, ast.While)) else [st.iter] if isinstance(st, ast.For) else [st] if isinstance(st, (ast.Assign, ast.Expr, ast.Return, ast.AugAssign)) else []
        for e in exprs:
            for n in ast.walk(e):
                if not isinstance(n, ast.Call):
                    continue
                callee = None
                if isinstance(n.func, ast.Name) and n.func.id.startswith("_") and not n.func.id.startswith("__"):
                    callee = prog.functions.get(f"{mod}.{n.func.id}")
                elif isinstance(n.func, ast.Attribute) and isinstance(n.func.value, ast.Name) and n.func.value.id == "self" and c.fn.cls is not None \
                        and n.func.attr.startswith("_") and not n.func.attr.startswith("__"):
                    callee = prog.lookup_method(c.fn.cls, n.func.attr)
                if callee is not None and callee is not c.fn:
                    out.append((st, callee))
                    if depth == 0:
                        out += [(st, h2) for _s, h2 in _helper_calls(prog, Ctx(prog, callee.qualname), depth + 1)]
    return out


def stmts_calling(c, attr):
    out = []
    for st in c.cfg.all_stmts():
        exprs = [st.test] if isinstance(st, (ast.If, ast.While)) else [st.iter] if isinstance(st, ast.For) else [st] if isinstance(st, (ast.Assign, ast.Expr, ast.Return, ast.AugAssign)) else []
        for e in exprs:
            for n in ast.walk(e):
                if isinstance(n, ast.Call) and ((isinstance(n.func, ast.Attribute) and n.func.attr == attr) or (isinstance(n.func, ast.Name) and n.func.id == attr)):
                    out.append(st)
    return out


def loops(c):
    return [st for st in c.cfg.all_stmts() if isinstance(st, (ast.For, ast.While))]


def nonempty_of(l, pred):
    """The literal says that a collection X with pred(X) is not empty: len(X) > 0, len(X) != 0, len(X) >= 1, 0 < len(X), or X used as a truth value."""
    def ln(t):
        return t[2][0] if t[0] == "call" and t[1] == G("len") and len(t[2]) == 1 else None
    X = None
    if l[0] == "cmp" and l[1] == ">" and l[3] == ("const", 0):
        X = ln(l[2])
    elif l[0] == "cmp" and l[1] == ">=" and l[3] == ("const", 1):
        X = ln(l[2])
    elif l[0] == "cmp" and l[1] == "<" and l[2] == ("const", 0):
        X = ln(l[3])
    elif l[0] == "cmp" and l[1] == "<=" and l[2] == ("const", 1):
        X = ln(l[3])
    elif l[0] == "not" and l[1][0] == "cmp" and l[1][1] == "==" and ("const", 0) in (l[1][2], l[1][3]):
        X = ln(l[1][3] if l[1][2] == ("const", 0) else l[1][2])
    elif l[0] not in ("cmp", "not", "isnone", "and", "or", "handler"):
        X = ln(l) or l   # truthiness of len(X) or of X itself
    return X is not None and pred(X)


def run(prog, rep):
    rep.explanation = EXPL
    rep.assumptions = ASSUME
    dd = lambda t: t[0] == "sub" and t[1] == P("dist_descriptions")
    q = f"{GHM}._check_dist_descriptions"
    row(rep, prog, "missing-distribution", q, "ValueError", lambda pc: any_lit(pc, lit_in("distribution", dd, False)),
        "a description without 'distribution'")
    row(rep, prog, "conditional-without-parameters", q, "ValueError",
        lambda pc: any_lit(pc, lit_in("conditional_on", dd, True)) and any_lit(pc, lit_in("parameters", dd, False)),
        "a conditional description without 'parameters'")
    def no_conditioner(l):
        """'conditional_on' is absent - or present with the value None, which __init__ treats... as conditional: dist_desc.get('conditional_on') is None covers both"""
        return l[0] == "isnone" and l[1][0] == "call" and l[1][1][0] == "attr" and l[1][1][2] == "get" and dd(l[1][1][1]) and l[1][2] and l[1][2][0] == ("const", "conditional_on") \
            and (len(l[1][2]) == 1 or l[1][2][1] == NONE)
    hit = row(rep, prog, "parameters-without-conditional", q, "ValueError",
        lambda pc: any_lit(pc, lit_in("parameters", dd, True)) and (any_lit(pc, lit_in("conditional_on", dd, False)) or any(no_conditioner(l) for l in pc)),
        "'parameters' (unknown names, a fixed-and-dependent clash) given without 'conditional_on': they would be dropped without a word and the variable "
        "modelled as independent")
    if hit is not None:
        c_, st_ = hit
        rep.check(any(no_conditioner(l) for l in c_.pcs.of(st_)), "C18.guard", f"{q}:parameters-without-conditional:none-value", c_.fn.where(st_),
                  "'parameters' with 'conditional_on': None is rejected like 'parameters' without the key",
                  "the guard tests only whether the KEY 'conditional_on' is there: a first variable given as {'conditional_on': None, 'parameters': {...}} is accepted, becomes a "
                  "ConditionalDistribution without a conditioner, and pdf / draw_sample / IFORM fail later with \"missing 1 required positional argument: 'given'\"; "
                  "test dist_desc.get('conditional_on') is None")
    row(rep, prog, "unknown-keys", q, "ValueError",
        lambda pc: any(nonempty_of(l, lambda X: mentions(X, ("attr", SELF, "_dist_description_keys"))) for l in pc),
        "a description with unknown keys")
    rep.part(hierarchy, prog, rep)
    # the checks run before any distribution is constructed
    c = Ctx(prog, f"{GHM}.__init__")
    rep.analysed(c.fn)
    calls = stmts_calling(c, "_check_dist_descriptions")
    lp = loops(c)
    ok = len(calls) == 1 and lp and all(c.cfg.dominates(c.cfg.node(calls[0]), c.cfg.node(l)) for l in lp)
    rep.check(ok, "C18.guard", f"{GHM}.__init__:checks-first", c.fn.where(), "_check_dist_descriptions(dist_descriptions) dominates the construction loop",
              "the description checks must run (on the constructor's own argument) before any ConditionalDistribution is built")
    row(rep, prog, "first-variable-conditional", f"{GHM}.__init__", "RuntimeError",
        lambda pc: ("not", ("isnone", ("sub", ("attr", SELF, "conditional_on"), ("const", 0)))) in pc, "a conditional first variable")
    # ConditionalDistribution bookkeeping
    q = f"{CD}.__init__"
    par = P("parameters")
    row(rep, prog, "unknown-parameter-names", q, "ValueError",
        lambda pc: any(nonempty_of(l, lambda X: X == ("call", ("attr", ("call", G("set"), (par,), ()), "difference"), (("attr", SELF, "param_names"),), ())) for l in pc),
        "parameters naming unknown parameters of the template", anchors=lambda c: loops(c))
    getf = lambda l: l[0] == "call" and l[1] == G("getattr") and l[2][:1] == (P("distribution"),)
    row(rep, prog, "neither-fixed-nor-dependent", q, "ValueError",
        lambda pc: any(l[0] == "not" and l[1][0] == "cmp" and l[1][1] == "in" and l[1][3] == par for l in pc) and any(l[0] == "isnone" and getf(l[1]) for l in pc),
        "a parameter that is neither fixed nor given a dependence function")
    row(rep, prog, "both-fixed-and-dependent", q, "ValueError",
        lambda pc: any(l[0] == "cmp" and l[1] == "in" and l[3] == par for l in pc) and any(l[0] == "not" and l[1][0] == "isnone" and getf(l[1][1]) for l in pc),
        "a parameter that is both fixed and given a dependence function")
    # fit descriptions / data
    q = f"{GHM}._check_and_fill_fit_desc"
    fdp = P("fit_descriptions")
    row(rep, prog, "fit-descriptions-length", q, "ValueError",
        lambda pc: ("not", CMP("==", ("call", G("len"), (fdp,), ()), ("attr", SELF, "n_dim"))) in pc, "fit_descriptions of the wrong length",
        anchors=lambda c: loops(c))
    row(rep, prog, "missing-method", q, "ValueError",
        lambda pc: any(l[0] == "not" and l[1][0] == "cmp" and l[1][1] == "in" and l[1][2] == ("const", "method") and l[1][3][0] == "sub" and l[1][3][1] == fdp for l in pc),
        "a fit description without 'method'")
    q = f"{GHM}.fit"
    data = ("call", G("numpy.array"), (P("data"),), ())
    def _alts_of(pc):
        # the literals of a path condition, a disjunction counted by its members ('a or b' rejects when a holds and when b holds)
        out = []
        for l in pc:
            out.extend(l[1] if l[0] == "or" else [l])
        return out
    row(rep, prog, "data-dimension", q, "ValueError",
        lambda pc: ("not", CMP("==", ("sub", ("attr", data, "shape"), ("const", -1)), ("attr", SELF, "n_dim"))) in _alts_of(pc)
        or ("not", CMP("==", ("sub", ("attr", data, "shape"), ("const", 1)), ("attr", SELF, "n_dim"))) in _alts_of(pc),
        "data whose number of columns differs from the model dimension", anchors=lambda c: loops(c))
    two = ("const", 2)
    row(rep, prog, "data-not-a-matrix", q, "ValueError",
        lambda pc: any(l in (("not", CMP("==", ("attr", data, "ndim"), two)), ("not", CMP("==", ("call", G("len"), (("attr", data, "shape"),), ()), two)),
                             ("not", CMP("==", ("call", G("numpy.ndim"), (data,), ()), two))) for l in _alts_of(pc)),
        "data that is not a two-dimensional (observations x variables) array: with (1, n, 2)- or (n, 2, 2)-shaped data the last axis matches and "
        "every variable is fitted to rows of the wrong axis", anchors=lambda c: loops(c))
    # ... and the same for a transformed model: its transform reads the columns it knows and would ignore the rest
    qt = f"{JM}.TransformedModel.fit"
    for nm_, lits_, desc_ in (("data-dimension", lambda l: l[0] == "not" and l[1][0] == "cmp" and l[1][1] == "==" and ("attr", SELF, "n_dim") in (l[1][2], l[1][3])
                               and any(w[0] == "attr" and w[2] == "shape" for w in walk(l[1])), "data whose number of columns differs from the model dimension"),
                              ("data-not-a-matrix", lambda l: l[0] == "not" and l[1][0] == "cmp" and l[1][1] == "==" and ("const", 2) in (l[1][2], l[1][3])
                               and any((w[0] == "attr" and w[2] == "ndim") or w == G("numpy.ndim") or w == G("len") for w in walk(l[1])), "data that is not a two-dimensional array")):
        row(rep, prog, nm_, qt, "ValueError", lambda pc, f_=lits_: any(f_(l) for l in _alts_of(pc)), desc_,
            anchors=lambda c: stmts_calling(c, "transform"))
    c = Ctx(prog, q)
    calls = stmts_calling(c, "_check_and_fill_fit_desc")
    ok = len(calls) == 1 and all(c.cfg.dominates(c.cfg.node(calls[0]), c.cfg.node(l)) for l in loops(c))
    rep.check(ok, "C18.guard", f"{q}:descriptions-checked-first", c.fn.where(), "_check_and_fill_fit_desc dominates the fitting loop",
              "fit descriptions must be checked before the first distribution is fitted")
    # HDC grid
    q = f"{CT}.HighestDensityContour._check_grid"
    nd = ("attr", ("attr", SELF, "model"), "n_dim")
    for what in ("limits", "deltas"):
        v = ("attr", SELF, what)
        row(rep, prog, f"{what}-length", q, "ValueError",
            lambda pc, v=v: ("not", CMP("==", ("call", G("len"), (v,), ()), nd)) in pc, f"{what} whose length differs from n_dim")
    c = Ctx(prog, f"{CT}.HighestDensityContour.__init__")
    rep.analysed(c.fn)
    g = stmts_calling(c, "_check_grid")
    s = stmts_calling(c, "__init__")
    ok = len(g) == 1 and len(s) == 1 and c.cfg.dominates(c.cfg.node(g[0]), c.cfg.node(s[0]))
    rep.check(ok, "C18.guard", f"{c.fn.qualname}:grid-checked-first", c.fn.where(), "_check_grid() precedes super().__init__() (which computes)",
              "the grid check must run before the contour is computed")
    q = f"{CT}.HighestDensityContour._compute"
    grid = lambda c: stmts_calling(c, "cell_averaged_joint_pdf")
    row(rep, prog, "limit-not-pair", q, "ValueError",
        lambda pc: any(l[0] == "not" and l[1][0] == "cmp" and l[1][1] == "==" and l[1][3] == ("const", 2) and l[1][2][0] == "call" and l[1][2][1] == G("len") for l in pc),
        "a limit that is not a (min, max) pair", anchors=grid)
    row(rep, prog, "limit-not-iterable", q, "ValueError", lambda pc: any(l[0] == "handler" and l[1] == G("TypeError") for l in pc),
        "a limit that is not iterable", anchors=grid)
    row(rep, prog, "nan-density", q, "ValueError",
        lambda pc: any(l[0] == "call" and l[1] == G("numpy.any") and l[2] and l[2][0][0] == "call" and l[2][0][1] == G("numpy.isnan") for l in pc),
        "NaN in the cell-averaged density", anchors=lambda c: stmts_calling(c, "cumsum_biggest_until"))
    # 2-D only contours
    for cls in ("DirectSamplingContour", "AndContour", "OrContour"):
        q = f"{CT}.{cls}._compute"
        row(rep, prog, "not-2d", q, "NotImplementedError", lambda pc: ("not", CMP("==", nd, ("const", 2))) in pc,
            f"{cls} on a model that is not two-dimensional",
            anchors=lambda c: stmts_calling(c, "draw_sample") + stmts_calling(c, "marginal_icdf") + loops(c))
    q = f"{CT}.IFORMContour.__init__"
    row(rep, prog, "model-type", q, "TypeError",
        lambda pc: any(l[0] == "not" and l[1][0] == "cmp" and l[1][1] == "in" and l[1][2] == ("attr", ("call", G("type"), (P("model"),), ()), "__name__") for l in pc),
        "IFORMContour on an unsupported model type", anchors=lambda c: stmts_calling(c, "__init__"))
    # slicers
    q = f"{IV}.IntervalSlicer.__init__"
    row(rep, prog, "unknown-kwargs", q, "TypeError",
        lambda pc: any(mentions(l, ("set", (("const", "min_n_intervals"), ("const", "min_n_points")))) or mentions(l, ("set", (("const", "min_n_points"), ("const", "min_n_intervals")))) for l in pc),
        "unknown slicer keyword arguments")
    for cls in ("WidthOfIntervalSlicer", "NumberOfIntervalsSlicer", "PointsPerIntervalSlicer"):
        c = Ctx(prog, f"{IV}.{cls}.__init__")
        rep.analysed(c.fn)
        s = stmts_calling(c, "__init__")
        ok = len(s) == 1 and isinstance(s[0].value, ast.Call) and any(k.arg is None for k in s[0].value.keywords)
        rep.check(ok, "C18.guard", f"{c.fn.qualname}:kwargs-forwarded", c.fn.where(), "super().__init__(**kwargs)",
                  "the slicer must forward its **kwargs to IntervalSlicer.__init__ where unknown options are rejected")
    q = f"{IV}.PointsPerIntervalSlicer.__init__"
    row(rep, prog, "reference-not-callable", q, "TypeError",
        lambda pc: ("not", ("call", G("callable"), (P("reference"),), ())) in pc, "a non-callable reference for PointsPerIntervalSlicer",
        anchors=lambda c: [st for st in c.cfg.all_stmts() if isinstance(st, ast.Assign) and isinstance(st.targets[0], ast.Attribute) and st.targets[0].attr == "reference"])
    # rows shared with other properties' rules
    rep.part(shared, prog, rep)
    rep.expect_min("C18.guard", 32)
    rep.expect_min("C18.hierarchy", 7)
    rep.expect_min("C18.shared", 21)


# ------------------------------------------------------ conditional_on in [0, i)
class _Val:
    """Abstract value of conditional_on used to evaluate the guard."""
    def __init__(self, v):
        self.v = v


def _ev(t, env):
    """Evaluate a literal over env = {'c': value, 'i': int}; None = unknown."""
    k = t[0]
    if k == "not":
        v = _ev(t[1], env)
        return None if v is None else not v
    if k in ("and", "or"):
        vs = [_ev(x, env) for x in t[1]]
        if k == "and":
            return False if False in vs else None if None in vs else True
        return True if True in vs else None if None in vs else False
    if k == "const":
        return t[1]
    if t == env["cterm"]:
        return env["c"]
    if k == "call" and t[1][0] == "attr" and t[1][2] == "get" and t[2] and t[2][0] == ("const", "conditional_on") and env["cterm"][0] == "sub" and t[1][1] == env["cterm"][1]:
        return env["c"]         # dist_desc.get("conditional_on") of the description that has the key
    if k == "isnone":
        inner = t[1]
        if inner == env["cterm"] or (inner[0] == "call" and inner[1][0] == "attr" and inner[1][2] == "get" and inner[2] and inner[2][0] == ("const", "conditional_on")):
            return env["c"] is None
        return None
    if t == env["iterm"]:
        return env["i"]
    if k == "cmp" and t[1] in ("<", "<=", ">", ">=", "=="):
        a, b = _ev(t[2], env), _ev(t[3], env)
        if a is None or b is None:
            return None
        try:
            return {"<": a < b, "<=": a <= b, ">": a > b, ">=": a >= b, "==": a == b}[t[1]]
        except TypeError:
            return "TypeError"
    if k == "cmp" and t[1] == "in" and t[2] == ("const", "conditional_on"):
        return True
    if k == "cmp" and t[1] == "in":
        return True  # other keys of the otherwise valid description are present
    if k == "call" and t[1] == G("isinstance") and len(t[2]) == 2 and t[2][0] == env["cterm"]:
        v = env["c"]
        return isinstance(v, int) and not isinstance(v, bool) if v is not None else False
    if k == "call" and t[1] == G("len"):
        return 0
    return None


def hierarchy(prog, rep):
    q = f"{GHM}._check_dist_descriptions"
    c = Ctx(prog, q)
    cands = []
    for st, e, pc in c.raises:
        for l in pc:
            for s in walk(l):
                if s[0] == "sub" and s[2] == ("const", "conditional_on") and s[1][0] == "sub" and s[1][1] == P("dist_descriptions"):
                    cands.append((st, e, pc, s, s[1][2]))
                    break
    cands = [x for i, x in enumerate(cands) if x[0] not in [y[0] for y in cands[:i]]]
    if not cands:
        rep.fail("C18.hierarchy", f"{q}:conditional_on-range", c.fn.where(),
                 "no guard tests the VALUE of 'conditional_on': a variable conditional on itself, on a later or on a non-existent variable is accepted "
                 "(sampling / IFORM / HDC then read columns that are not computed yet)")
        return
    st, e, pc, cterm, iterm = cands[0]
    site = c.fn.where(st)
    table = {}
    cases = [(2, 0, False), (2, 1, False), (2, 2, True), (2, 3, True), (2, -1, True), (2, 7, True), (1, 0, False), (1, 1, True), (3, 2, False), (2, "0", True), (2, None, True)]
    bad = []
    for i, cv, want in cases:
        env = {"c": cv, "i": i, "cterm": cterm, "iterm": iterm}
        vals = [_ev(l, env) for l in pc]
        if any(v is None for v in vals):
            got = None
        elif any(v == "TypeError" for v in vals):
            got = True  # comparison itself raises: still rejected
        else:
            got = all(vals)
        if got is False:
            # not rejected HERE - an earlier guard of the same function may already have rejected it (its negation is part of this path condition)
            for _st2, _e2, pc2 in c.raises:
                v2 = [_ev(l, env) for l in pc2]
                if v2 and all(x is True for x in v2):
                    got = True
        table[f"i={i},conditional_on={cv!r}"] = got
        if got is not want:
            bad.append(f"i={i}, conditional_on={cv!r}: {'rejected' if got else 'accepted' if got is False else 'undecided'} (must be {'rejected' if want else 'accepted'})")
    rep.extra["C18.hierarchy.table"] = {k: str(v) for k, v in table.items()}
    for k, (i, cv, want) in zip(table, cases):
        if k.startswith("i=1") or cv in (None,):
            continue
    for i, cv, want in cases:
        key = f"i={i},conditional_on={cv!r}"
        if i == 1 and cv == 0 or cv is None and False:
            pass
    groups = {"earlier-accepted": [x for x in cases if not x[2]], "self": [(2, 2, True), (1, 1, True)], "later": [(2, 3, True)],
              "non-existent": [(2, 7, True)], "negative": [(2, -1, True)], "not-an-index": [(2, "0", True), (2, None, True)]}
    for g, cs in groups.items():
        msgs = []
        for i, cv, want in cs:
            got = table[f"i={i},conditional_on={cv!r}"]
            if got is not want:
                msgs.append(f"variable {i} with conditional_on={cv!r} is {'rejected' if got else 'accepted' if got is False else 'undecided by the guard'}")
        rep.check(not msgs, "C18.hierarchy", f"{q}:conditional_on:{g}", site, f"{g}: decided correctly by the guard's path condition",
                  "the hierarchy requires 0 <= conditional_on[i] < i: " + "; ".join(msgs))
    rep.check(e == "ValueError", "C18.hierarchy", f"{q}:conditional_on:exception", site, "raises ValueError", f"must raise ValueError, raises {e}")


# ------------------------------------------------------------------- shared
class _Re:
    def __init__(self, rep, prefix):
        self.rep, self.prefix = rep, prefix

    def _inst(self, rule, inst):
        return f"{rule}:{inst}"

    def ok(self, rule, inst, *a, **k):
        self.rep.ok("C18.shared", self._inst(rule, inst), *a, **k)

    def fail(self, rule, inst, *a, **k):
        self.rep.fail("C18.shared", self._inst(rule, inst), *a, **k)

    def check(self, cond, rule, inst, *a, **k):
        return self.rep.check(cond, "C18.shared", self._inst(rule, inst), *a, **k)

    def __getattr__(self, n):
        return getattr(self.rep, n)


class _Filter(_Re):
    def __init__(self, rep, keep):
        super().__init__(rep, "")
        self.keep = keep

    def ok(self, rule, inst, *a, **k):
        if self.keep(rule, inst):
            super().ok(rule, inst, *a, **k)

    def fail(self, rule, inst, *a, **k):
        if self.keep(rule, inst):
            super().fail(rule, inst, *a, **k)

    def check(self, cond, rule, inst, *a, **k):
        if self.keep(rule, inst):
            return super().check(cond, rule, inst, *a, **k)
        return cond


def shared(prog, rep):
    # non-finite evaluation points
    f = _Filter(rep, lambda rule, inst: rule == "C06.finite")
    c06.pdf_chain(prog, f)
    c06.finite(prog, f)
    # unknown fit method
    f = _Filter(rep, lambda rule, inst: rule == "C12.dispatch" and inst.endswith("<other>"))
    c12.dispatch(prog, f)
    # unknown weight keyword / non-iterable weights
    f = _Filter(rep, lambda rule, inst: rule == "C13.weights" and (inst.endswith("otherstr") or inst.endswith("noniterable")))
    c13.fit_lsq(prog, f)
    # reference keywords / types of the value slicers; too few intervals
    f = _Filter(rep, lambda rule, inst: rule == "C10.refs" and ":guard:" in inst)
    c10.refs_guard(prog, f)
    f = _Filter(rep, lambda rule, inst: rule == "C10.min")
    c10.minimum(prog, f)
    # an unknown fit method is rejected for a conditional variable too: every interval is fitted through the template's own
    # fit(interval_data, method, weights), the dispatcher that raises (the per-interval row of C09.intervals)
    from . import c09
    f = _Filter(rep, lambda rule, inst: rule == "C09.intervals" and inst.endswith(":per-interval"))
    c09.intervals(prog, f)
