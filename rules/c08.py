"""C08 - a conditional distribution is its template evaluated at the dependence values (wiring)."""
import ast

from vstat.loader import AnalysisError
from vstat.terms import builder, show, SELF, NONE, G, alts, walk, mentions, phi, strip_none
from vstat.guards import path_conditions
from vstat.cfg import cfg_of
from vstat import algebra
from .distfam import families, P, A, DIST
from . import c05
from .c12 import _Relabel

CD = f"{DIST}.ConditionalDistribution"
DF = "virocon.dependencies.DependenceFunction"
EXPL = ("C08.values: _get_param_values stores, for every name K of self.param_names, conditional_parameters[K](given) when K is dependent "
        "and fixed_parameters[K] otherwise - same key on both sides, called with given only - and returns that dict; no test in the "
        "forwarders depends on given (one path for scalar and vector); C08.forward: pdf/cdf/icdf/draw_sample forward their first argument and "
        "**_get_param_values(given) (plus random_state) to the same-named method of self.distribution; C08.keywords: every family accepts "
        "the keys of its parameters as keywords in cdf/icdf/pdf/draw_sample; C08.template: the template honours every explicit keyword "
        "(= C05.paramflow); C08.chain: DependenceFunction binds a dependence-function argument under its own name, removes it from the "
        "fitted parameters, evaluates without arguments with the stored values in order; predefined functions evaluate a function-valued "
        "parameter at their own first argument.")
ASSUME = ["numerical equality of vectorised and scalar evaluation is numpy broadcasting (runtime)"]


def run(prog, rep):
    rep.explanation = EXPL + ' C08.template also files the slot rows of C05 (explicit and stored parameter reach the scipy slot through the same mapping).'
    rep.assumptions = ASSUME
    rep.part(values, prog, rep)
    rep.part(forward, prog, rep)
    rep.part(keywords, prog, rep)
    sub = _Relabel(rep, "C05.paramflow", "C08.template")
    for fam in families(prog):
        rep.part(c05.paramflow, prog, sub, fam)
        # the explicit parameter must also reach its scipy slot through the SAME mapping as the stored one
        # ("agrees with the template evaluated at those parameter values"): the slot rows of C05, filed here too
        rep.part(c05.slots, prog, _Relabel(rep, "C05.slots", "C08.template"), fam)
    rep.part(chain, prog, rep)
    rep.expect_min("C08.values", 4)
    rep.expect_min("C08.forward", 4)
    rep.expect_min("C08.keywords", 28)
    rep.expect_min("C08.template", 17)
    rep.expect_min("C08.chain", 6)
    from .purity import row as _stateless_row
    rep.part(_stateless_row, prog, rep, "C08", 4)
    # "behaves exactly like its template family with every parameter set ..., for pdf, cdf, icdf and sampling": each of the four
    # template methods must hand the explicitly passed parameters to scipy through the family's one mapping (the rows of C05.siblings),
    # and sampling with vector-valued parameters must give one draw per conditioning value (the rows of C07.size / C07.family)
    from vstat.report import Relabel
    from . import c07
    from .distfam import families as _fams
    meth = Relabel(rep, "C08.methods", lambda r, inst: r in ("C05.siblings", "C05.generic"))
    for fam in _fams(prog, include_generic=True):
        rep.part(c05.generic if fam.generic else c05.siblings, prog, meth, fam)
    rep.expect_min("C08.methods", 70)
    vec = Relabel(rep, "C08.vector", lambda r, inst: r == "C07.size" or (r == "C07.family" and inst.endswith(":size")))
    rep.part(c07.size, prog, vec)
    rep.part(c07.family, prog, vec)
    rep.expect_min("C08.vector", 9)
    rep.explanation += (" C08.methods: the rows of C05.siblings/C05.generic - cdf/icdf/pdf/draw_sample of every family pass exactly the slot tuple of "
                        "_get_scipy_parameters(<their own parameter formals, in the order of the parameters>) to the matching scipy function. "
                        "C08.vector: the rows of C07.size - vector-valued parameters give size (n, len(vector)), so one vectorised call equals the calls one at a time.")

_CONVERSIONS = {"numpy.asarray", "numpy.array", "numpy.asanyarray", "numpy.asarray_chkfinite"}


_FLOATS = ("builtins.float", "float", "numpy.float64", "numpy.double")


def _is_given(t, given):
    """given itself, or given under a conversion that keeps values and shape (np.asarray(given), ...), on every alternative"""
    from vstat.terms import top_alts
    for _lits, a in top_alts(t):
        if a == given:
            continue
        if a[0] == "call" and a[1][0] in ("func", "global") and a[1][1] in _CONVERSIONS and len(a[2]) >= 1 and _is_given(a[2][0], given) \
                and all(k == "dtype" and v[0] in ("func", "global") and v[1] in _FLOATS for k, v in a[3]) \
                and (len(a[2]) == 1 or len(a[2]) == 2 and not a[3] and a[2][1][0] in ("func", "global") and a[2][1][1] in _FLOATS):
            continue
        return False
    return True


def _says_scalar(lit, given):
    """the literal holds for a scalar given (ndim 0) and for no array given: not(np.ndim(given) > 0), np.ndim(given) == 0, np.isscalar(given)"""
    import operator
    neg = False
    while lit[0] == "not":
        neg, lit = not neg, lit[1]
    nd = ("call", ("global", "numpy.ndim"), (given,), ())
    if lit == ("call", ("global", "numpy.isscalar"), (given,), ()):
        return not neg
    ops = {">": operator.gt, ">=": operator.ge, "<": operator.lt, "<=": operator.le, "==": operator.eq, "!=": operator.ne}
    if lit[0] == "cmp" and lit[1] in ops:
        a, c = lit[2], lit[3]
        if a == nd and c[0] == "const" and isinstance(c[1], (int, float)):
            f = lambda n: ops[lit[1]](n, c[1])
        elif c == nd and a[0] == "const" and isinstance(a[1], (int, float)):
            f = lambda n: ops[lit[1]](a[1], n)
        else:
            return False
        return all((f(n) != neg) == (n == 0) for n in range(0, 6))
    return False


def values(prog, rep):
    q = f"{CD}._get_param_values"
    fn = prog.func(q)
    rep.analysed(fn)
    b = builder(prog, fn)
    pcs = path_conditions(prog, fn, b)
    cfg = cfg_of(fn)
    given = P("given")
    CP = ("attr", SELF, "conditional_parameters")
    FP = ("attr", SELF, "fixed_parameters")
    from vstat.terms import guarded_alts, top_alts
    ret = [s for s in cfg.all_stmts() if isinstance(s, ast.Return)]
    rt = b.term(ret[-1].value, ret[-1])
    # entries (key, value, literals, site): from stores into the returned dict, or from a returned dict comprehension
    entries = []
    fresh = False
    if rt[0] == "comp" and rt[1] == "dict" and rt[2][0] == "tuple" and len(rt[2][1]) == 2:
        fresh = True
        key, val = rt[2][1]
        if rt[4] != ("attr", SELF, "param_names") or rt[5]:
            rep.fail("C08.values", f"{q}:names", fn.where(ret[-1]), f"the parameter dict must be built for every name of self.param_names; iterates {show(rt[4])[:80]}")
        for lits, v in guarded_alts(val):
            entries.append((key, v, tuple(lits), ret[-1]))
    else:
        fresh = rt == ("dict", ())
        for st in cfg.all_stmts():
            if isinstance(st, ast.Assign) and isinstance(st.targets[0], ast.Subscript):
                tg = st.targets[0]
                if b.term(tg.value, st) != rt:
                    continue
                key = b.term(tg.slice, st)
                for lits, v in guarded_alts(b.term(st.value, st)):
                    entries.append((key, v, tuple(pcs.of(st)) + tuple(lits), st))
    dep = fix = None
    for key, val, pc, st in entries:
        key_ok = key[0] == "sub" and key[1] == ("attr", SELF, "param_names") and key[2][0] == "idx"
        is_dep = [l for l in pc if l in (("cmp", "in", key, CP), ("cmp", "in", key, ("call", ("attr", CP, "keys"), (), ())))]
        is_fix = [l for l in pc if l in (("not", ("cmp", "in", key, CP)), ("not", ("cmp", "in", key, ("call", ("attr", CP, "keys"), (), ()))))]
        if val[0] == "call":
            ok = (key_ok and bool(is_dep) and val[:2] == ("call", ("sub", CP, key)) and len(val[2]) == 1 and not val[3]
                  and _is_given(val[2][0], given))
            dep = st
            rep.check(ok, "C08.values", f"{q}:dependent", fn.where(st), "param_values[K] = conditional_parameters[K](given) for K dependent",
                      f"a dependent parameter must be conditional_parameters[K](given) with the same K and only given as argument, on the 'K in conditional_parameters' branch; found {show(val)[:120]} under {[show(l)[:50] for l in pc]}")
        else:
            ok = key_ok and bool(is_fix) and val == ("sub", FP, key)
            fix = st
            rep.check(ok, "C08.values", f"{q}:fixed", fn.where(st), "param_values[K] = fixed_parameters[K] otherwise",
                      f"a non-dependent parameter must be fixed_parameters[K] with the same K; found {show(val)[:120]} under {[show(l)[:50] for l in pc]}")
    if dep is None:
        rep.fail("C08.values", f"{q}:dependent", fn.where(), "no store of a dependence-function value found")
    else:
        # given is documented as 'float or array_like': the dependence functions do arithmetic on it (x ** c, c * x), which a
        # list does not have (c * list even repeats it). A bare given may reach them only where it is known to be a scalar.
        gb = builder(prog, fn, inline=False, guarded=True)
        bare = []
        intconv = []
        for st in cfg.all_stmts():
            for call in [n for n in ast.walk(st) if isinstance(n, ast.Call)] if isinstance(st, (ast.Assign, ast.Return, ast.Expr)) else []:
                t = gb.term(call, st)
                for _l0, alt in top_alts(t):
                    if alt[0] == "call" and alt[1][0] == "sub" and alt[1][1] == CP and len(alt[2]) == 1:
                        for lits, a in top_alts(alt[2][0]):
                            if a == given:
                                # known to be a scalar: arithmetic exists, but a numpy integer scalar (a value of an integer grid) still is one
                                (intconv if any(_says_scalar(l, given) for l in tuple(pcs.of(st)) + tuple(lits)) else bare).append(st)
                            if a != given and a[0] == "call" and len(a[2]) < 2 and not any(k == "dtype" for k, _v in a[3]):
                                intconv.append(st)
        rep.check(not bare, "C08.values", f"{q}:dependent:array-like", fn.where(bare[0]) if bare else fn.where(dep),
                  "a non-scalar given reaches the dependence functions as np.asarray(given)",
                  "given is 'float or array_like', but a list given reaches the dependence functions unconverted: their arithmetic (x ** c, c * x) "
                  "raises or repeats the list; convert a non-scalar given with np.asarray first")
        rep.check(not intconv, "C08.values", f"{q}:dependent:float", fn.where(intconv[0]) if intconv else fn.where(dep),
                  "the conditioning values are converted to float",
                  "np.asarray(given) keeps an integer dtype: cd.pdf([1.5, 2.0, 3.0], [1, 2, 4]) with sigma(x) = a + b * x ** -2 raises 'Integers to negative integer powers are not "
                  "allowed' (model.pdf([[1, 2], [2, 3]]) too) while the pairs one at a time and given=[1., 2., 4.] work; a scalar given left as it is has the same "
                  "defect for a numpy integer (HighestDensityContour(model, alpha, limits=[(1, 31), (1, 41)], deltas=1) hands the values of an integer np.arange "
                  "grid one at a time and raised, the same grid in floats works); convert every given with dtype=float")
    if fix is None:
        rep.fail("C08.values", f"{q}:fixed", fn.where(), "no store of a fixed value found")
    rep.check(fresh, "C08.values", f"{q}:result", fn.where(ret[-1]), "returns the freshly built dict",
              f"must return the dict built in this call (a fresh dict), found {show(rt)[:80]}")
    # no branching on given anywhere in the conditional distribution's evaluation methods
    bad = []
    _SHAPE = (G("numpy.ndim"), G("numpy.shape"), G("numpy.size"), G("len"), G("numpy.isscalar"))

    def value_test(t, sub):
        # a test of the SHAPE of given (how many conditioning values there are) is not a test of its values
        # (nor is a test of the shape of something computed from it: np.ndim(parameter value) says whether that parameter varies with given)
        if t[0] == "call" and t[1] in _SHAPE and len(t[2]) == 1:
            return False
        if t == sub:
            return True
        from vstat.terms import children
        return any(value_test(c, sub) for c in children(t))
    for name in ("_get_param_values", "pdf", "cdf", "icdf", "draw_sample"):
        f = prog.func(f"{CD}.{name}")
        bb = builder(prog, f, inline=False)
        for st in cfg_of(f).all_stmts():
            if isinstance(st, (ast.If, ast.While)):
                t = bb.term(st.test, st)
                if value_test(t, given):
                    bad.append(f"{name}:{st.lineno}")
            for node in ast.walk(st) if isinstance(st, (ast.Assign, ast.Return, ast.Expr)) else []:
                if isinstance(node, ast.IfExp) and value_test(bb.term(node.test, st), given):
                    bad.append(f"{name}:{st.lineno}")
    rep.check(not bad, "C08.values", f"{CD}:no-branch-on-given", "virocon/distributions.py", "no test depends on given",
              f"evaluation branches on the conditioning value at {bad}: scalar and vector given would take different paths")


def forward(prog, rep):
    gpv = ("call", ("attr", SELF, "_get_param_values"), (P("given"),), ())
    for name in ("pdf", "cdf", "icdf", "draw_sample"):
        q = f"{CD}.{name}"
        fn = prog.func(q)
        rep.analysed(fn)
        # a shared forwarding helper of the class is looked through; the parameter lookup itself stays a call
        b = builder(prog, fn, self_cls=prog.classes[CD], inline=True, no_inline=("_get_param_values",))
        ret = [s for s in cfg_of(fn).all_stmts() if isinstance(s, ast.Return)]
        first = [p for p in fn.positional_params if p != "self"][0]
        want_kw = [("**", gpv)]
        if name == "draw_sample":
            want_kw.append(("random_state", P("random_state")))
        want = ("call", ("attr", ("attr", SELF, "distribution"), name), (P(first),), tuple(sorted(want_kw)))
        # an early return for a scalar given (nothing to broadcast there) forwards the looked-up values as they are
        early_ok = True
        if name == "draw_sample" and len(ret) > 1:
            pcs_ = path_conditions(prog, fn, b)
            for r_ in ret[:-1]:
                early_ok = early_ok and b.term(r_.value, r_) == want and any(_says_scalar(l, P("given")) for l in pcs_.of(r_))
            if early_ok:
                ret = ret[-1:]
        t = b.term(ret[-1].value, ret[-1])
        per_value = None
        if name == "draw_sample" and t[0] == "call" and t != want:
            # sampling may re-shape the looked-up values (never change them): scalars broadcast to the shape of given
            kwd = dict(t[3])
            star = kwd.get("**")
            if star is not None:
                ok_alts, per_value = True, False
                for a in alts(star):
                    kind = _reshaped(a, gpv)
                    ok_alts = ok_alts and (a == gpv or kind is not None)
                    per_value = per_value or bool(kind)
                if ok_alts:
                    t = ("call", t[1], t[2], tuple(sorted([(k_, v_) for k_, v_ in t[3] if k_ != "**"] + [("**", gpv)])))
        rep.check(t == want and len(ret) == 1, "C08.forward", q, fn.where(ret[-1]),
                  f"self.distribution.{name}({first}, **self._get_param_values(given))",
                  f"must forward to the same-named template method with its own first argument and **_get_param_values(given); found {show(t)[:160]}")
        if name == "draw_sample":
            rep.check(bool(per_value), "C08.forward", q + ":per-value", fn.where(ret[-1]),
                      "parameter values that do not vary with given are broadcast to its shape: one draw per conditioning value",
                      "the number of draws is taken from the shapes of the parameter VALUES (Distribution._get_rvs_size): when no dependence function returns an "
                      "array (constant functions, all parameters fixed) a vector of conditioning values gets ONE draw, repeated for every row of a joint sample; "
                      "scalar values must be broadcast to np.shape(given) before they are forwarded")


def _reshaped(a, gpv):
    """For a dict comprehension over gpv.items() that keeps every key and hands on each value v either unchanged or as
    np.broadcast_to(v, np.shape(given)): True if the broadcast form occurs, False if only v; None for anything else."""
    from vstat.terms import top_alts
    if not (a[0] == "comp" and a[1] == "dict" and a[2][0] == "tuple" and len(a[2][1]) == 2):
        return None
    if a[4] != ("call", ("attr", gpv, "items"), (), ()) or (len(a) > 5 and a[5]):
        return None
    k, val = a[2][1]
    if not (k[0] == "key" and k[1] == gpv):
        return None
    v = ("sub", gpv, k)
    bc = ("call", G("numpy.broadcast_to"), (v, ("call", G("numpy.shape"), (P("given"),), ())), ())
    got = {x for _l, x in top_alts(val)}
    if not got <= {v, bc}:
        return None
    return bc in got


def keywords(prog, rep):
    for fam in families(prog, include_generic=True):
        for m in ("cdf", "icdf", "pdf", "draw_sample"):
            fn = fam.m[m]
            inst = f"{fam.ci.qualname}.{m}:keywords"
            if fam.generic:
                rep.check(fn.node.args.kwarg is not None, "C08.keywords", inst, fn.where(), "accepts **kwargs",
                          "the generic scipy wrapper must accept its parameters as **kwargs")
                continue
            acc = set(p.arg for p in fn.node.args.args + fn.node.args.kwonlyargs)
            missing = [p for p in fam.param_names if p not in acc]
            rep.check(not missing, "C08.keywords", inst, fn.where(), f"accepts {fam.param_names} as keywords",
                      f"ConditionalDistribution passes the parameters by keyword {fam.param_names}; {m} does not accept {missing}")


def chain(prog, rep):
    init = prog.func(f"{DF}.__init__")
    rep.analysed(init)
    b = builder(prog, init, inline=False)
    pcs = path_conditions(prog, init, b)
    cfg = cfg_of(init)
    PAR = ("attr", SELF, "parameters")
    bind_ok = del_ok = reg_ok = dep_ok = False
    key = None
    for st in cfg.all_stmts():
        if isinstance(st, ast.For):
            # for key in kwargs / kwargs.keys() / for key, value in kwargs.items()
            for path in ((), (0,)):
                it = b.loop_target(st, st.iter, path, st, {})
                if it[0] == "key" and it[1] == P("kwargs"):
                    key = it
    for st in cfg.all_stmts():
        if isinstance(st, ast.Assign) and isinstance(st.targets[0], ast.Attribute) and st.targets[0].attr == "func":
            t = b.term(st.value, st)
            if t[0] == "call" and t[1] == G("functools.partial"):
                kws = dict(t[3])
                d = kws.get("**")
                if t[2] == (("attr", SELF, "func"),) and d and d[0] == "dict" and len(d[1]) == 1:
                    k, v = d[1][0]
                    if v == ("sub", P("kwargs"), k) and k == key:
                        lit = [l for l in pcs.of(st) if l in (("cmp", "in", k, PAR), ("cmp", "in", k, ("call", ("attr", PAR, "keys"), (), ())))]
                        bind_ok = bool(lit)
        if isinstance(st, ast.Delete):
            for tg in st.targets:
                if isinstance(tg, ast.Subscript) and b.term(tg.value, st) == PAR:
                    del_ok = key is not None and b.term(tg.slice, st) == key
        if isinstance(st, ast.Expr) and isinstance(st.value, ast.Call):
            t = b.term(st.value, st)
            if t[0] == "call" and t[1][0] == "attr" and t[1][2] == "register" and key is not None:
                reg_ok = t[2] == (SELF,) and t[1][1] == ("sub", P("kwargs"), key)
        if isinstance(st, ast.Assign) and isinstance(st.targets[0], ast.Subscript):
            if b.term(st.targets[0].value, st) == ("attr", SELF, "dependent_parameters") and key is not None:
                dep_ok = b.term(st.targets[0].slice, st) == key and b.term(st.value, st) == ("sub", P("kwargs"), key)
    q = init.qualname
    rep.check(bind_ok, "C08.chain", f"{q}:partial", init.where(), "self.func = partial(self.func, **{key: kwargs[key]}) for key in parameters",
              "a dependence-function argument must be bound to the parameter of its own name (partial(func, **{key: kwargs[key]})) for keys that are parameters of func")
    rep.check(del_ok, "C08.chain", f"{q}:remove", init.where(), "del self.parameters[key]",
              "the bound parameter must be removed from the fitted parameters under the same key")
    rep.check(reg_ok and dep_ok, "C08.chain", f"{q}:register", init.where(), "dependent_parameters[key] = dep; dep.register(self)",
              "the dependence function must record the conditioner under the same key and register itself with it")
    call = prog.func(f"{DF}.__call__")
    rep.analysed(call)
    bc = builder(prog, call, inline=False)
    pc = path_conditions(prog, call, bc)
    found = found2 = False
    positional = []
    for st in cfg_of(call).all_stmts():
        if isinstance(st, ast.Return):
            t = bc.term(st.value, st)
            vals = ("call", ("attr", ("attr", SELF, "parameters"), "values"), (), ())
            PARAMS = ("attr", SELF, "parameters")
            named = ("call", G("dict"), (("call", G("zip"), (PARAMS, P("args")), ()),), ())
            named2 = ("call", G("dict"), (("call", G("zip"), (("call", ("attr", PARAMS, "keys"), (), ()), P("args")), ()),), ())
            if t == ("call", ("attr", SELF, "func"), (P("x"), ("star", vals)), ()):
                found = True
                positional.append(st)
            if t == ("call", ("attr", SELF, "func"), (P("x"),), (("**", PARAMS),)):
                found = True
            if t == ("call", ("attr", SELF, "func"), (P("x"), ("star", P("args"))), (("**", P("kwargs")),)):
                found2 = True
                positional.append(st)
            if t[0] == "call" and t[1] == ("attr", SELF, "func") and t[2] == (P("x"),) and sorted(t[3], key=repr) in (sorted([("**", named), ("**", P("kwargs"))], key=repr),
                                                                                                                   sorted([("**", named2), ("**", P("kwargs"))], key=repr)):
                found2 = True
    rep.check(found, "C08.chain", f"{call.qualname}:stored", call.where(), "self.func(x, **self.parameters)",
              "without explicit parameters the function must be evaluated at x with the stored parameter values in order")
    rep.check(found2, "C08.chain", f"{call.qualname}:explicit", call.where(), "self.func(x, <the given values, by name>)",
              "with explicit parameters the function must be evaluated at x with exactly those")
    # the constructor binds a conditioner BY KEYWORD (partial(func, **{key: dep})): coefficients passed by POSITION then land in the conditioner's slot unless
    # it happens to be the last parameter of func
    rep.check(not positional, "C08.chain", f"{call.qualname}:by-name", call.where(positional[0]) if positional else call.where(), "the coefficients reach func by name",
              "the coefficients are passed to func positionally although a dependence-function parameter was bound by keyword: def alpha(x, d_of_x, a=2.0, b=0.3) with "
              "d_of_x=beta_dep raises \"got multiple values for argument 'd_of_x'\" (the chain can be neither evaluated nor fitted; it works only with the conditioner LAST); "
              "pass **self.parameters / **dict(zip(self.parameters, args))")
    # predefined: a function-valued parameter is evaluated at the function's own first argument
    n = 0
    for q, fn in sorted(prog.functions.items()):
        if not q.startswith("virocon.predefined.") or fn.parent is not None:
            continue
        bb = builder(prog, fn, inline=False)
        for st in cfg_of(fn).all_stmts():
            if isinstance(st, ast.Assign) and isinstance(st.value, ast.Call):
                t = bb.term(st.value, st)
                if t[0] == "call" and t[1] == G(DF) and t[2] and t[2][0][0] == "func":
                    inner = prog.functions.get(t[2][0][1])
                    if inner is None:
                        continue
                    fparams = inner.positional_params
                    for k, v in t[3]:
                        if k in fparams[1:]:
                            n += 1
                            ib = builder(prog, inner, inline=False)
                            uses = [nd for nd in ast.walk(inner.node) if isinstance(nd, ast.Name) and nd.id == k and isinstance(nd.ctx, ast.Load)]
                            calls = [c for c in ast.walk(inner.node) if isinstance(c, ast.Call) and isinstance(c.func, ast.Name) and c.func.id == k]
                            ok = bool(calls) and len(calls) == len(uses) and all(
                                len(c.args) == 1 and not c.keywords and isinstance(c.args[0], ast.Name) and c.args[0].id == fparams[0] for c in calls)
                            rep.check(ok, "C08.chain", f"{inner.qualname}:{k}", inner.where(), f"{k}({fparams[0]})",
                                      f"the dependence-function parameter {k} must be evaluated at the function's own argument {fparams[0]} (same g), and only called")
    if n == 0:
        rep.error("C08.chain: no predefined dependence function with a function-valued parameter found (anchor get_OMAE2020_V_Hs._alpha3 vanished)")
