"""Result buffers: an array that receives floating-point results must not inherit the dtype of the caller's input.

``np.empty_like(x)`` of an integer ``x`` is an integer array: densities and probabilities stored into it are truncated to 0."""
from vstat.terms import G

_FLOAT = (G("float"), G("numpy.float64"), G("numpy.double"), G("numpy.float_"), ("const", "float"), ("const", "float64"), ("const", "f8"), ("const", "d"))


def float_buffer(t):
    """True: allocated as a float array; False: takes the dtype of another array (or a non-float dtype); None: not an allocation."""
    if t[0] != "call" or t[1][0] != "global":
        return None
    name = t[1][1]
    kw = dict(t[3])
    if name in ("numpy.empty_like", "numpy.zeros_like", "numpy.ones_like", "numpy.full_like"):
        dt = kw.get("dtype", t[2][1] if name != "numpy.full_like" and len(t[2]) > 1 else (t[2][2] if name == "numpy.full_like" and len(t[2]) > 2 else None))
        return dt in _FLOAT
    if name in ("numpy.empty", "numpy.zeros", "numpy.ones", "numpy.full"):
        pos = 2 if name == "numpy.full" else 1
        dt = kw.get("dtype", t[2][pos] if len(t[2]) > pos else None)
        return dt is None or dt in _FLOAT
    return None
