"""C02 - highest-density contour encloses the highest-density region of content 1-alpha (wiring)."""
import ast

from vstat.loader import AnalysisError
from vstat.terms import IT, CMP, ordered, builder, show, SELF, NONE, G, alts, walk, mentions, phi, strip_none
from vstat.guards import path_conditions, exception_name
from vstat.cfg import cfg_of, EXIT, RAISE
from vstat.sigs import bind, bind_arange
from vstat import algebra
from .ctor import ctor_stores

HDC = "virocon.contours.HighestDensityContour"
P = lambda n: ("param", n)
EXPL = ("C02.cellpdf: per dimension d the cell probability is cdf(c_d + dx/2 [,g]) - cdf(c_d - dx/2 [,g]) of distributions[d], divided by dx exactly "
        "once, dx = coords[d][1] - coords[d][0] of the same d, conditioning grid coords[conditional_on[d]] with the same given in both calls, row i "
        "filled from the i-th conditioning value, output shape entries of d and conditional_on[d]; C02.joint: the joint density multiplies "
        "cell_averaged_pdf(k, coords) once for every k in range(n_dim); C02.pairing: probability = density x every delta, fm = selected probability / "
        "every delta of the same iterable; C02.level: the selection limit is 1 - self.alpha; C02.select: descending stable sort of the flattened "
        "array, cumulative sum of those sorted values, mask cum_sum <= limit applied to the same sort indices, scattered back with the array's own "
        "shape, threshold = the array at the LAST selected index; C02.warn: an unreachable limit reaches warnings.warn(RuntimeWarning) and the "
        "handler in _compute always re-warns; C02.nan: NaN density raises before selection.")
ASSUME = ["monotone cdfs (C05 residue); the numeric content is not decided", "the (cond, dist) -> output-shape reshape is correct for conditional_on[d] < d (C18 guard)",
          "behaviour when even the densest cell exceeds 1-alpha is a value-range question, not decided"]


def run(prog, rep):
    rep.explanation = EXPL
    rep.assumptions = ASSUME
    rep.part(cellpdf, prog, rep)
    rep.part(joint, prog, rep)
    rep.part(compute, prog, rep)
    rep.part(visible, prog, rep)
    rep.part(_nonempty, prog, rep)
    rep.expect_min("C02.total", 2)
    rep.explanation += (" C02.total: neither the selection nor the assembly of the contour reads an element of a sequence that can be empty (no cell fits "
                        "below 1 - alpha: the property then asks for the empty region).")
    rep.part(select, prog, rep)
    rep.part(grid, prog, rep)
    rep.part(ctor_stores, prog, rep, "C02.ctor", HDC, ["model", "alpha", "limits", "deltas"])
    rep.expect_min("C02.ctor", 2)
    rep.expect_min("C02.grid", 5)
    rep.expect_min("C02.cellpdf", 7)
    rep.expect_min("C02.joint", 2)
    rep.expect_min("C02.pairing", 2)
    rep.expect_min("C02.level", 1)
    rep.expect_min("C02.select", 5)
    rep.expect_min("C02.warn", 6)
    rep.expect_min("C02.nan", 1)
    from .purity import row as _stateless_row
    rep.part(_stateless_row, prog, rep, "C02", 4)
    # "cell probabilities are the documented CDF differences of the (conditional) distributions": the wiring of every family's cdf
    # and of the conditional cdf is filed here too
    from .shared import template_rows, conditional_rows
    template_rows(prog, rep, "C02.template", ["cdf"], 50)
    conditional_rows(prog, rep, "C02.conditional", ["cdf"], 4)

def half_cell(cd, dx, sign):
    return ("bin", sign, cd, ("bin", "*", ("const", 0.5), dx))


def cellpdf(prog, rep):
    q = f"{HDC}.cell_averaged_pdf"
    fn = prog.func(q)
    rep.analysed(fn)
    b = builder(prog, fn, inline=False)
    pcs = path_conditions(prog, fn, b)
    cfg = cfg_of(fn)
    d = P("dist_idx")
    coords = P("coords")
    cd = ("sub", coords, d)
    M = ("attr", SELF, "model")
    cond = ("sub", ("attr", M, "conditional_on"), d)
    ccond = ("sub", coords, cond)
    cdf = ("attr", ("sub", ("attr", M, "distributions"), d), "cdf")
    dx_want = ("bin", "-", ("sub", cd, ("const", 1)), ("sub", cd, ("const", 0)))
    ret = [s for s in cfg.all_stmts() if isinstance(s, ast.Return)]
    if len(ret) != 1:
        raise AnalysisError(f"{q}: expected one return")
    t = b.term(ret[0].value, ret[0])
    site = fn.where(ret[0])
    ok_div = t[0] == "bin" and t[1] == "/" and algebra.same(t[3], dx_want)
    rep.check(ok_div, "C02.cellpdf", f"{q}:width", site, "result = cell probability / dx, dx = coords[d][1] - coords[d][0]",
              f"the cell-averaged density must be the cell probability divided (once) by the cell width of the SAME dimension coords[dist_idx][1] - coords[dist_idx][0]; found {show(t)[:160]}")
    body = t[2] if t[0] == "bin" else t
    if not (body[0] == "call" and body[1][0] == "attr" and body[1][2] == "reshape"):
        rep.fail("C02.cellpdf", f"{q}:reshape", site, f"the per-cell values must be reshaped to the broadcast shape before the division; found {show(body)[:120]}")
        return
    once = not any(s[0] == "bin" and s[1] == "/" and algebra.same(s[3], dx_want) for s in walk(body))
    rep.check(once, "C02.cellpdf", f"{q}:width-once", site, "divided by dx exactly once", "the cell probability is divided by dx more than once")
    src = body[1][1]
    shape_t = body[2][0] if body[2] else None

    def diff_ok(e, given):
        """e == cdf(cd + dx/2 [,given]) - cdf(cd - dx/2 [,given])"""
        if not (e[0] == "bin" and e[1] == "-"):
            return False, "must be upper minus lower"
        up, lo = e[2], e[3]
        for side, sign, name in ((up, "+", "upper"), (lo, "-", "lower")):
            if not (side[0] == "call" and side[1] == cdf):
                return False, f"{name} must be the cdf of self.model.distributions[dist_idx], found {show(side[1])[:80] if side[0] == 'call' else show(side)[:80]}"
            if len(side[2]) != 1 or not algebra.same(side[2][0], half_cell(cd, dx_want, sign)):
                return False, f"{name} must be evaluated at coords[dist_idx] {sign} 0.5*dx, found {show(side[2][0])[:120] if side[2] else None}"
            g = dict(side[3]).get("given")
            if given is None and side[3]:
                return False, f"unconditional {name} takes no given"
            if given is not None and g != given:
                return False, f"{name} must be conditioned on {show(given)[:80]}, found {show(g)[:80] if g else None}"
        return True, ""

    unc = [a for a in alts(src) if a[0] == "bin"]
    alloc = [a for a in alts(src) if a[0] == "call"]
    # unconditional branch
    okp = False
    why = "no unconditional branch found"
    for st in cfg.all_stmts():
        if isinstance(st, ast.Assign) and isinstance(st.targets[0], ast.Name) and ("isnone", cond) in pcs.of(st):
            v = b.term(st.value, st)
            if v in unc:
                okp, why = diff_ok(v, None)
    rep.check(okp, "C02.cellpdf", f"{q}:unconditional", fn.where(), "cdf(c + dx/2) - cdf(c - dx/2) on the 'conditional_on[d] is None' branch", "independent variable: " + why)
    # conditional branch: row store
    okc = False
    why = "no row store fbar[i, :] = upper - lower found on the conditional branch"
    for st in cfg.all_stmts():
        if isinstance(st, ast.Assign) and isinstance(st.targets[0], ast.Subscript) and ("not", ("isnone", cond)) in pcs.of(st):
            tg = st.targets[0]
            base = b.term(tg.value, st)
            if base not in alloc:
                continue
            idx = b.index(tg.slice, st, {})
            v = b.term(st.value, st)
            lp = cfg.enclosing_loops(st)
            if not lp:
                why = "the conditional rows must be filled in a loop over the conditioning grid"
                continue
            lid_ = f"{lp[-1].lineno}:{lp[-1].col_offset}"
            it = b.term(lp[-1].iter, lp[-1])
            # one row per conditioning value: enumerate(grid) or an index running over range(len(grid))
            nc_ = ("call", G("len"), (ccond,), ())
            if it == ("call", G("enumerate"), (ccond,), ()):
                i = ("idx", lid_, "enumerate")
            elif it[0] == "call" and it[1] == G("range") and not it[3] and it[2] in ((nc_,), (("const", 0), nc_), (("attr", ccond, "size"),), (("sub", ("attr", ccond, "shape"), ("const", 0)),)):
                i = ("idx", lid_, "range", it[2])
            else:
                why = f"the loop must run over coords[conditional_on[dist_idx]] (enumerate it, or index it over range(len(...))), found {show(it)[:100]}"
                continue
            given = ("sub", ccond, i)
            okc, why = diff_ok(v, given)
            if okc and idx != ("tuple", (i, ("slice", NONE, NONE, NONE))):
                okc, why = False, f"row i (the index of the conditioning value) must be filled: fbar[i, :]; found fbar[{show(idx)[:60]}]"
            if okc:
                want_alloc = ("call", G("numpy.empty"), (("tuple", (("call", G("len"), (ccond,), ()), ("call", G("len"), (cd,), ()))),), ())
                if base != want_alloc and not (base[0] == "call" and base[1] in (G("numpy.zeros"), G("numpy.empty")) and base[2] == want_alloc[2]):
                    okc, why = False, f"the conditional matrix must be (len(conditioning grid), len(own grid)); found {show(base)[:140]}"
    rep.check(okc, "C02.cellpdf", f"{q}:conditional", fn.where(), "fbar[i, :] = cdf(c + dx/2, given=g_i) - cdf(c - dx/2, given=g_i), g_i = coords[conditional_on[d]][i]", "dependent variable: " + why)
    # output shape
    stores = []
    for st in cfg.all_stmts():
        if isinstance(st, ast.Assign) and isinstance(st.targets[0], ast.Subscript):
            base = b.term(st.targets[0].value, st)
            if shape_t is not None and base == shape_t:
                k = b.term(st.targets[0].slice, st)
                br = "u" if ("isnone", cond) in pcs.of(st) else "c" if ("not", ("isnone", cond)) in pcs.of(st) else "both"
                stores.append((br, k, b.term(st.value, st)))
    L = lambda x: ("call", G("len"), (x,), ())
    own = [s_ for s_ in stores if s_[1] == d]
    cnd = [s_ for s_ in stores if s_[1] == cond]
    other = [s_ for s_ in stores if s_ not in own and s_ not in cnd]
    own_cover = {s_[0] for s_ in own}
    ok_shape = shape_t is not None and shape_t[0] == "call" and shape_t[1] == G("numpy.ones") and shape_t[2][:1] == (L(coords),) \
        and all(s_[2] == L(cd) for s_ in own) and ("both" in own_cover or {"u", "c"} <= own_cover) \
        and len(cnd) == 1 and cnd[0][0] == "c" and cnd[0][2] == L(ccond) and not other
    rep.check(ok_shape, "C02.cellpdf", f"{q}:shape", fn.where(), "shape[d] = len(coords[d]); shape[conditional_on[d]] = len(coords[conditional_on[d]]); other axes 1",
              f"the broadcast shape must be all ones except entry dist_idx = len(coords[dist_idx]) and, when conditional, entry conditional_on[dist_idx] = len(its grid); found {[(s_[0], show(s_[1])[:40], show(s_[2])[:40]) for s_ in stores]}")
    rep.check(len(alloc) == 1 and len(unc) == 1, "C02.cellpdf", f"{q}:branches", fn.where(), "one unconditional and one conditional source",
              f"expected exactly the unconditional difference and the conditional matrix as sources of the result; found {len(unc)} + {len(alloc)}")
    rep.check(ok_div, "C02.cellpdf", f"{q}:dx", fn.where(), "dx from the own axis", "dx must be the spacing of coords[dist_idx]")


def joint(prog, rep):
    q = f"{HDC}.cell_averaged_joint_pdf"
    fn = prog.func(q)
    rep.analysed(fn)
    b = builder(prog, fn, inline=False)
    cfg = cfg_of(fn)
    coords = P("coords")
    loops = [s for s in cfg.all_stmts() if isinstance(s, ast.For)]
    ok = False
    acc = None
    why = "expected one loop over range(n_dim)"
    if len(loops) == 1:
        lp = loops[0]
        it = b.term(lp.iter, lp)
        n = ("call", G("len"), (coords,), ())
        if it in (("call", G("range"), (n,), ()), ("call", G("range"), (("attr", ("attr", SELF, "model"), "n_dim"),), ())):
            k = ("idx", f"{lp.lineno}:{lp.col_offset}", "range", it[2])
            factor = ("call", ("attr", SELF, "cell_averaged_pdf"), (k, coords), ())
            body = [s for s in lp.body if not isinstance(s, ast.Pass)]
            if len(body) == 1 and isinstance(body[0], (ast.Assign, ast.AugAssign)):
                st = body[0]
                if isinstance(st, ast.AugAssign):
                    ok = isinstance(st.op, ast.Mult) and b.term(st.value, st) == factor
                    acc = st.target.id if isinstance(st.target, ast.Name) else None
                else:
                    v = b.term(st.value, st)
                    acc = st.targets[0].id if isinstance(st.targets[0], ast.Name) else None
                    prev = b.name(acc, st, {}) if acc else None
                    ok = acc is not None and (v == ("call", G("numpy.multiply"), (prev, factor), ()) or v == ("bin", "*", prev, factor) or v == ("bin", "*", factor, prev))
                why = f"each pass must multiply the running product by self.cell_averaged_pdf(k, coords) for the loop's own k; found {ast.unparse(st)[:100]}"
                if ok:
                    rets = [s for s in cfg.all_stmts() if isinstance(s, ast.Return)]
                    ok = len(rets) == 1 and isinstance(rets[0].value, ast.Name) and rets[0].value.id == acc
                    why = "the running product must be returned"
        else:
            why = f"the loop must visit every dimension: range(len(coords)); found {show(it)[:80]}"
    rep.check(ok, "C02.joint", f"{q}:product", fn.where(), "product over k in range(n_dim) of cell_averaged_pdf(k, coords)", why)
    init_ok = False
    for dd in b.rd.all_defs(acc) if ok and acc else []:
        if dd.kind == "assign" and not cfg.enclosing_loops(dd.stmt):
            t = b.def_term(dd)
            init_ok = t[0] == "call" and t[1] == G("numpy.ones")
    rep.check(init_ok or not ok, "C02.joint", f"{q}:init", fn.where(), "running product starts at ones", "the running product must start from an array of ones")


def compute(prog, rep):
    q = f"{HDC}._compute"
    fn = prog.func(q)
    rep.analysed(fn)
    b = builder(prog, fn, inline=False)
    pcs = path_conditions(prog, fn, b)
    cfg = cfg_of(fn)
    deltas = ("attr", SELF, "deltas")
    mult = div = None
    for lp in [s for s in cfg.all_stmts() if isinstance(s, ast.For)]:
        if b.term(lp.iter, lp) != deltas:
            continue
        el = ("sub", deltas, ("idx", f"{lp.lineno}:{lp.col_offset}", "iter"))
        for st in lp.body:
            if isinstance(st, ast.AugAssign) and b.term(st.value, st) == el and isinstance(st.target, ast.Name):
                if isinstance(st.op, ast.Mult):
                    mult = (lp, st)
                elif isinstance(st.op, ast.Div):
                    div = (lp, st)
    sel = None
    for st in cfg.all_stmts():
        if isinstance(st, ast.Assign) and isinstance(st.value, ast.Call):
            t = b.term(st.value, st)
            if t[0] == "call" and t[1] == ("attr", SELF, "cumsum_biggest_until"):
                sel = (st, t)
    if sel is None:
        raise AnalysisError(f"{q}: no call of cumsum_biggest_until")
    ok = mult is not None
    why = "no loop multiplying the density by every delta found"
    if ok:
        name = mult[1].target.id
        base = [dd for dd in b.rd.reaching(name, mult[0]) if dd.kind in ("assign", "unpack")]
        okb = len(base) == 1 and b.def_term(base[0])[0] == "call" and b.def_term(base[0])[1] == ("attr", SELF, "cell_averaged_joint_pdf")
        arg0 = sel[0].value.args[0]
        oks = isinstance(arg0, ast.Name) and arg0.id == name and cfg.dominates(cfg.node(mult[0]), cfg.node(sel[0]))
        ok = okb and oks
        why = "the selection must receive the cell density multiplied by EVERY entry of self.deltas (one loop over self.deltas, multiplying by the loop element)"
    rep.check(ok, "C02.pairing", f"{q}:probability", fn.where(mult[1]) if mult else fn.where(), "cell_prob = density * every delta", why)
    ok = div is not None
    why = "no loop dividing the selected probability by every delta found"
    if ok:
        name = div[1].target.id
        base = [dd for dd in b.rd.reaching(name, div[0]) if dd.kind in ("assign", "unpack")]
        vals = set()
        for dd in base:
            vals |= alts(b.def_term(dd))
        want = {IT(sel[1], 1), ("const", 0)}
        fm_st = [s for s in cfg.all_stmts() if isinstance(s, ast.Assign) and isinstance(s.targets[0], ast.Attribute) and s.targets[0].attr == "fm"]
        ok = vals <= want and IT(sel[1], 1) in vals and len(fm_st) == 1 and isinstance(fm_st[0].value, ast.Name) and fm_st[0].value.id == name \
            and cfg.dominates(cfg.node(div[0]), cfg.node(fm_st[0]))
        why = f"self.fm must be the threshold probability returned by the selection divided by EVERY entry of the same self.deltas; found base {[show(v)[:60] for v in vals]}"
    rep.check(ok, "C02.pairing", f"{q}:fm", fn.where(div[1]) if div else fn.where(), "fm = selected probability / every delta", why)
    lim = sel[1][2][1] if len(sel[1][2]) > 1 else dict(sel[1][3]).get("limit")
    rep.check(lim is not None and algebra.same(lim, ("bin", "-", ("const", 1), ("attr", SELF, "alpha"))), "C02.level", f"{q}:limit", fn.where(sel[0]),
              "limit = 1 - self.alpha", f"the region must hold probability 1 - alpha: limit must be 1 - self.alpha, found {show(lim)[:60] if lim else None}")
    # warning plumbing: selection inside catch_warnings + simplefilter('error') inside try/except RuntimeWarning whose handler always warns
    enc = cfg.enclosing(sel[0])
    withs = [p for p, w in enc if isinstance(p, ast.With)]
    tries = [p for p, w in enc if isinstance(p, ast.Try) and w == "body"]
    okw = False
    if withs and tries:
        w = withs[-1]
        ctx = b.term(w.items[0].context_expr, w)
        filt = [s for s in w.body if isinstance(s, ast.Expr) and b.term(s.value, s) == ("call", G("warnings.simplefilter"), (("const", "error"),), ())]
        okw = ctx == ("call", G("warnings.catch_warnings"), (), ()) and bool(filt) and filt[0].lineno < sel[0].lineno
    rep.check(okw, "C02.warn", f"{q}:escalate", fn.where(sel[0]), "selection runs under catch_warnings + simplefilter('error')",
              "the selection's RuntimeWarning must be turned into an exception (catch_warnings + simplefilter('error')) so that it cannot pass silently")
    okh = False
    why = "the selection is not inside try/except RuntimeWarning"
    if tries:
        tr = tries[-1]
        hs = [h for h in tr.handlers if h.type is not None and b.term(h.type, tr) == G("RuntimeWarning")]
        if hs:
            h = hs[0]
            hn = cfg.node(h)
            warns = [cfg.node(s) for s in ast.walk(h) if isinstance(s, ast.Expr) and isinstance(s.value, ast.Call)
                     and _is_warn(b.term(s.value, s), "RuntimeWarning")]
            after = set()
            # nodes after the try statement: successors outside the handler body
            inside = {cfg.node(s) for s in ast.walk(h) if id(s) in cfg.node_of}
            for n_ in inside | {hn}:
                for s_ in cfg.g.successors(n_):
                    if s_ not in inside and s_ != hn:
                        after.add(s_)
            okh = bool(warns) and not cfg.reachable_avoiding(hn, after, warns)
            why = "some path through the 'except RuntimeWarning' handler leaves it without warnings.warn(..., RuntimeWarning): a too small grid yields a smaller region silently"
    rep.check(okh, "C02.warn", f"{q}:handler", fn.where(), "every path through the handler re-warns with RuntimeWarning", why)
    # NaN guard (same row as C18)
    nan = [st for st in cfg.all_stmts() if isinstance(st, ast.Raise) and exception_name(st, b) == "ValueError"
           and any(l[0] == "call" and l[1] == G("numpy.any") and l[2] and l[2][0][0] == "call" and l[2][0][1] == G("numpy.isnan") for l in pcs.of(st))]
    ok = bool(nan) and cfg.dominates(cfg.node(cfg.enclosing(nan[0])[-1][0]), cfg.node(sel[0]))
    rep.check(ok, "C02.nan", f"{q}:nan", fn.where(nan[0]) if nan else fn.where(), "NaN density raises ValueError before the selection",
              "a NaN cell density must raise ValueError before the cumulative selection")


def _nonempty(prog, rep):
    from .emptiness import unguarded_reads
    for name in ("cumsum_biggest_until", "_compute"):
        q = f"{HDC}.{name}"
        fn = prog.func(q)
        b = builder(prog, fn, inline=False)
        pcs = path_conditions(prog, fn, b)
        bad = unguarded_reads(fn, b, pcs)
        if not bad:
            rep.ok("C02.total", f"{q}:element-reads", fn.where(), "no element of a possibly empty sequence is read")
        if bad:
            st, src, why = bad[0]
            rep.fail("C02.total", f"{q}:element-reads", fn.where(st), f"{', '.join(s_ for _st, s_, _w in bad)} read although {why}: when the densest cell alone holds more "
                     "than 1 - alpha no cell is selected and the constructor ends in an IndexError (not caught by the RuntimeWarning handler) instead of the empty region")


def _own_calls(st):
    """Call nodes evaluated by the statement itself (not by statements nested in it)."""
    todo = []
    for name, val in ast.iter_fields(st):
        if name in ("body", "orelse", "finalbody", "handlers"):
            continue
        todo.extend(val if isinstance(val, list) else [val])
    for v in todo:
        if isinstance(v, ast.AST):
            for n in ast.walk(v):
                if isinstance(n, ast.Call):
                    yield n


def _suppressing(t):
    """Does this call silence RuntimeWarnings for what follows?  simplefilter / filterwarnings with the action 'ignore' (or an
    action that is not a constant) for a category that is RuntimeWarning or one of its bases (or none given)."""
    if t[0] != "call" or t[1] not in (G("warnings.simplefilter"), G("warnings.filterwarnings")):
        return False
    kw = dict(t[3])
    act = t[2][0] if t[2] else kw.get("action")
    if act is not None and act[0] == "const" and act[1] != "ignore":
        return False
    pos = 1 if t[1] == G("warnings.simplefilter") else 2
    cat = kw.get("category", t[2][pos] if len(t[2]) > pos else None)
    return cat is None or cat[0] != "global" or cat in (G("RuntimeWarning"), G("Warning"), G("Exception"), G("BaseException"))


def visible(prog, rep):
    """The RuntimeWarning of a too small grid must reach the caller of the constructor: on the way from
    HighestDensityContour(...) to the warnings.warn call nothing silences or records it."""
    hdc = prog.cls(HDC)
    chain = []
    init = prog.lookup_method(hdc, "__init__")
    seen = set()
    ci = hdc
    while init is not None and init.qualname not in seen:
        seen.add(init.qualname)
        chain.append(init)
        nxt = None
        for n in ast.walk(init.node):
            if isinstance(n, ast.Call) and isinstance(n.func, ast.Attribute) and n.func.attr == "__init__" and isinstance(n.func.value, ast.Call) \
                    and isinstance(n.func.value.func, ast.Name) and n.func.value.func.id == "super":
                own = init.cls
                rest = own.mro[1:] if own is not None else []
                for c in rest:
                    if "__init__" in c.methods:
                        nxt = c.methods["__init__"]
                        break
        init = nxt
    comp = prog.lookup_method(hdc, "_compute")
    chain.append(comp)
    n_sites = 0
    for fn in chain:
        rep.analysed(fn)
        b = builder(prog, fn, inline=False)
        cfg = cfg_of(fn)
        for st in cfg.all_stmts():
            on_path = False
            for c in _own_calls(st):
                f = c.func
                if isinstance(f, ast.Attribute) and f.attr in ("_compute", "__init__") and fn is not comp:
                    on_path = True
                if fn is comp and _is_warn(b.term(c, st), "RuntimeWarning"):
                    on_path = True
            if not on_path:
                continue
            n_sites += 1
            bad = []
            for par, which in cfg.enclosing(st):
                if isinstance(par, ast.With):
                    for it in par.items:
                        t = b.term(it.context_expr, par)
                        if t[0] == "call" and t[1] == G("warnings.catch_warnings"):
                            rec = dict(t[3]).get("record", t[2][0] if t[2] else None)
                            if rec is not None and rec != ("const", False):
                                bad.append(f"runs inside catch_warnings(record=...) (line {par.lineno}): the warning is collected, not shown")
            # a silencing filter installed before the statement, in this function
            for s2 in cfg.all_stmts():
                for c in _own_calls(s2):
                    t = b.term(c, s2)
                    if not _suppressing(t) or s2 is st or not cfg.reachable(cfg.node(s2), cfg.node(st)):
                        continue
                    # a filter set inside a catch_warnings block is undone when that block is left
                    scopes = [id(p_) for p_, _w in cfg.enclosing(s2) if isinstance(p_, ast.With)
                              and any(b.term(i_.context_expr, p_)[:2] == ("call", G("warnings.catch_warnings")) for i_ in p_.items)]
                    mine = {id(p_) for p_, _w in cfg.enclosing(st)}
                    if all(x in mine for x in scopes):
                        bad.append(f"{ast.unparse(c)[:60]} (line {s2.lineno}) is in force when this statement runs")
            rep.check(not bad, "C02.warn", f"{fn.qualname}:audible:{ast.unparse(st).splitlines()[0][:40]}", fn.where(st),
                      "no warning filter silences or records the RuntimeWarning on the way to the caller",
                      "the RuntimeWarning of a grid that cannot hold 1 - alpha must reach the caller of the constructor: " + "; ".join(dict.fromkeys(bad)))
    if n_sites < 3:
        raise AnalysisError(f"C02.warn: construction path of {HDC} to the RuntimeWarning not found ({n_sites} sites)")


def _is_warn(t, cat):
    if t[0] == "call" and t[1] == G("warnings.warn"):
        c = dict(t[3]).get("category", t[2][1] if len(t[2]) > 1 else None)
        return c == G(cat)
    return False


def select(prog, rep):
    q = f"{HDC}.cumsum_biggest_until"
    fn = prog.func(q)
    rep.analysed(fn)
    b = builder(prog, fn, inline=False)
    pcs = path_conditions(prog, fn, b)
    cfg = cfg_of(fn)
    arr, limit = P("array"), P("limit")
    ret = [s for s in cfg.all_stmts() if isinstance(s, ast.Return)]
    t = b.term(ret[-1].value, ret[-1])
    site = fn.where(ret[-1])
    if t[0] != "tuple" or len(t[1]) != 2:
        raise AnalysisError(f"{q}: expected 'return summed_fields, last_summed'")
    fields, last = t[1]
    flats = (("call", G("numpy.ravel"), (arr,), ()), ("call", ("attr", arr, "ravel"), (), ()), ("call", ("attr", arr, "flatten"), (), ()))
    shp = ("attr", arr, "shape")

    def is_desc_sort(si):
        """si == argsort(flat, kind=stable)[::-1]"""
        if si[0] == "sub" and si[2] == ("slice", NONE, NONE, ("const", -1)) and si[1][0] == "call" and si[1][1] == G("numpy.argsort"):
            bd = bind(si[1])
            return bd is not None and bd.get("a") in flats and bd.get("kind") in (("const", "mergesort"), ("const", "stable")) and set(bd) <= {"a", "kind"}, bd.get("a") if bd else None
        return False, None

    # last = array[unravel_index(SEL[-1], shape=array.shape)] ;  SEL = SI[cumsum(flat[SI]) <= limit]
    sel = None
    ok_last = False
    why = f"threshold must be the array at the LAST selected (least dense enclosed) cell; found {show(last)[:200]}"
    if last[0] == "sub" and last[1] == arr and last[2][0] == "call" and last[2][1] == G("numpy.unravel_index"):
        bd = bind(last[2])
        if bd and bd.get("shape") == shp and bd.get("indices", NONE)[0] == "sub":
            ind = bd["indices"]
            if ind[2] == ("const", -1):
                sel = ind[1]
                ok_last = True
            else:
                why = f"the threshold must be read at the LAST selected index ([-1]); found index {show(ind[2])}"
    elif last[0] == "sub" and last[1] in flats and last[2][0] == "sub" and last[2][2] == ("const", -1):
        sel = last[2][1]
        ok_last = True
    rep.check(ok_last, "C02.select", f"{q}:threshold", site, "last_summed = array[unravel(selected[-1])]", why)
    if sel is None:
        # fall back: the indices used in the scatter store
        for st in cfg.all_stmts():
            if isinstance(st, ast.Assign) and isinstance(st.targets[0], ast.Subscript):
                i = b.term(st.targets[0].slice, st)
                if i[0] == "call" and i[1] == G("numpy.unravel_index") and i[2]:
                    sel = i[2][0]
    if sel is None:
        rep.fail("C02.select", f"{q}:selection", site, "cannot find the selected index set")
        return
    ok = False
    why = f"selected indices must be sort_inds[cum_sum <= limit]; found {show(sel)[:200]}"
    if sel[0] == "sub" and sel[2][0] == "cmp":
        SI, c = sel[1], sel[2]
        d, flat = is_desc_sort(SI)
        rep.check(d, "C02.select", f"{q}:order", site, "indices of a descending stable sort of the flattened array",
                  f"cells must be taken in order of DEcreasing density with a stable sort: argsort(flat, kind='mergesort'|'stable')[::-1]; found {show(SI)[:140]}")
        o = ordered(c) or (c[2], c[3], None)
        op_ok = o[1] == limit and o[2] is False
        cs = o[0]
        cs_ok = cs == ("call", G("numpy.cumsum"), (("sub", flat, SI),), ()) if flat is not None else False
        rep.check(op_ok, "C02.select", f"{q}:operator", site, "cum_sum <= limit",
                  f"the enclosed probability must be at most the limit and miss it by less than one cell: mask must be 'cum_sum <= limit' "
                  f"(with '<' an exact hit loses a cell, with '>'/'>=' the complement is selected); found {show(c)[:80]}")
        rep.check(cs_ok, "C02.select", f"{q}:cumsum", site, "cum_sum = cumsum(flat[sort_inds]) of the same sort indices",
                  f"the cumulative sum must run over the values in the SAME sorted order the mask is applied to: cumsum(flat[sort_inds]); found {show(cs)[:160]}")
        ok = True
    else:
        rep.fail("C02.select", f"{q}:selection", site, why)
    # scatter back
    okf = False
    for st in cfg.all_stmts():
        if isinstance(st, ast.Assign) and isinstance(st.targets[0], ast.Subscript):
            base = b.term(st.targets[0].value, st)
            i = b.term(st.targets[0].slice, st)
            if base == fields and i[0] == "call" and i[1] == G("numpy.unravel_index"):
                bd = bind(i)
                okf = bd is not None and bd.get("indices") == sel and bd.get("shape") == shp and b.term(st.value, st) in (("const", 1), ("const", True)) \
                    and fields[0] == "call" and fields[1] == G("numpy.zeros") and fields[2][:1] == (shp,)
    rep.check(okf, "C02.select", f"{q}:scatter", site, "region[unravel_index(selected, array.shape)] = 1 on zeros(array.shape)",
              "the selected flat indices must be scattered back into a zero array of the input's own shape")
    # warning
    warns = [st for st in cfg.all_stmts() if isinstance(st, ast.Expr) and isinstance(st.value, ast.Call) and _is_warn(b.term(st.value, st), "RuntimeWarning")]
    okw = False
    if warns and sel[0] == "sub" and sel[2][0] == "cmp":
        cs = (ordered(sel[2]) or (sel[2][2],))[0]
        want = CMP("<", ("sub", cs, ("const", -1)), limit)
        pcw = pcs.of(warns[0])
        # literals that also hold after the warning's if-statement come from earlier raising guards; the rest is the warning's own condition
        enc = cfg.enclosing(warns[0])
        after = None
        if enc:
            top = enc[0][0]
            body = fn.body
            for k_, s_ in enumerate(body):
                if s_ is top and k_ + 1 < len(body):
                    after = body[k_ + 1]
        inherited = set(pcs.of(after)) if after is not None else set()
        own = [l for l in pcw if l not in inherited]
        okw = own == [want] and not cfg.enclosing_loops(warns[0])
        if want in pcw and not okw:
            extra_why = f"; the warning is additionally conditioned on {[show(l)[:80] for l in own if l != want]}: shortfalls satisfying that are returned silently"
        else:
            extra_why = ""
    rep.check(okw, "C02.warn", f"{q}:unreachable", fn.where(warns[0]) if warns else fn.where(), "cum_sum[-1] < limit -> warnings.warn(RuntimeWarning)",
              "if the whole grid holds less than the limit a RuntimeWarning must be issued (test: exactly 'total cumulative sum < limit')" + (extra_why if warns and sel[0] == "sub" and sel[2][0] == "cmp" else ""))


def grid(prog, rep):
    """Default limits / deltas and the cell-centre grids: every per-dimension quantity carries its own index."""
    q = f"{HDC}._check_grid"
    fn = prog.func(q)
    rep.analysed(fn)
    b = builder(prog, fn, inline=False)
    pcs = path_conditions(prog, fn, b)
    cfg = cfg_of(fn)
    M = ("attr", SELF, "model")
    nd = ("attr", M, "n_dim")
    lim_attr, del_attr = ("attr", SELF, "limits"), ("attr", SELF, "deltas")
    # default limits
    okl = False
    why = "no default limits found"
    for st, _nm, t in b.list_values():
        if t[0] == "comp" and ("isnone", lim_attr) in pcs.of(st):
            d = ("idx", t[3], "range", (nd,))
            why = f"default limits must be (lower, model.marginal_icdf(p, dim)) for dim in range(n_dim) with the comprehension's own dim; found {show(t)[:200]}"
            if t[4] == ("call", G("range"), (nd,), ()) and t[2][0] == "tuple" and len(t[2][1]) == 2:
                up = t[2][1][1]
                if up[0] == "call" and up[1] == ("attr", M, "marginal_icdf") and len(up[2]) >= 2 and up[2][1] == d:
                    lvl = up[2][0]
                    okl = lvl[0] == "bin" and lvl[1] == "-" and algebra.same(lvl[2], ("const", 1)) and mentions(lvl[3], ("attr", SELF, "alpha"))
                    why = f"the default upper limit must be a high marginal quantile 1 - c*alpha of the SAME dimension; level found {show(lvl)[:80]}"
    rep.check(okl, "C02.grid", f"{q}:default-limits", fn.where(), "limits[dim] = (0, marginal_icdf(1 - c*alpha, dim))", why)
    # default deltas
    okd = False
    why = "no default deltas found"
    for st in cfg.all_stmts():
        if isinstance(st, ast.Assign) and isinstance(st.targets[0], ast.Subscript) and ("isnone", del_attr) in pcs.of(st):
            i = b.term(st.targets[0].slice, st)
            v = b.term(st.value, st)
            okd = False
            if i[0] == "idx" and i[2] == "range" and i[3] == (nd,) and v[0] == "bin" and v[1] == "*":
                for ext in (v[2], v[3]):
                    if ext[0] == "bin" and ext[1] == "-" and ext[2][0] == "sub" and ext[3][0] == "sub" and ext[2][2] == ("const", 1) and ext[3][2] == ("const", 0) \
                            and ext[2][1] == ext[3][1] and ext[2][1][0] == "sub" and ext[2][1][2] == i and lim_attr in alts(ext[2][1][1]):
                        okd = True
            why = f"default deltas[i] must be a fraction of the extent of limits[i] of the SAME i, for i in range(n_dim); found deltas[{show(i)[:30]}] = {show(v)[:120]}"
    rep.check(okd, "C02.grid", f"{q}:default-deltas", fn.where(), "deltas[i] = (limits[i][1] - limits[i][0]) * relative size", why)
    # scalar / list deltas
    oks = okit = False
    for st in cfg.all_stmts():
        if isinstance(st, ast.Assign) and isinstance(st.targets[0], ast.Name):
            v = b.term(st.value, st)
            if v[0] == "bin" and v[1] == "*" and v[3] == nd and v[2][0] == "list" and len(v[2][1]) == 1 and any(l[0] == "handler" for l in pcs.of(st)):
                el = set(alts(v[2][1][0]))
                oks = del_attr in el and el <= {del_attr, ("call", G("list"), (del_attr,), ())}
            if v == ("call", G("list"), (del_attr,), ()):
                okit = True
    rep.check(oks and okit, "C02.grid", f"{q}:deltas-forms", fn.where(), "scalar delta -> [delta] * n_dim; iterable -> list(deltas)",
              "a scalar cell size must be used for every dimension and a per-dimension list kept in order")
    store = {}
    for st in cfg.all_stmts():
        if isinstance(st, ast.Assign) and isinstance(st.targets[0], ast.Attribute) and st.targets[0].attr in ("limits", "deltas"):
            store[st.targets[0].attr] = set(alts(b.term(st.value, st)))
    ok_store = lim_attr in store.get("limits", set()) and any(a[0] == "comp" for a in store.get("limits", set())) \
        and any(a[0] == "call" and a[1] in (G("numpy.empty"), G("numpy.zeros")) for a in store.get("deltas", set())) \
        and not any(mentions(a, lim_attr) and a != lim_attr for a in store.get("deltas", set()))
    rep.check(ok_store, "C02.grid", f"{q}:stored", fn.where(), "self.limits / self.deltas hold the completed values",
              f"the completed limits and deltas must be stored back under their own names (limits <- supplied or default list, deltas <- supplied/default array); found {({k: [show(a)[:40] for a in v] for k, v in store.items()})}")
    # the grids in _compute
    q2 = f"{HDC}._compute"
    f2 = prog.func(q2)
    b2 = builder(prog, f2, inline=False)
    c2 = cfg_of(f2)
    okg = False
    why = "cell-centre grid construction not found"
    # the list handed to cell_averaged_joint_pdf, whichever way it is built (loop with append = comprehension)
    grids = []
    for st in c2.all_stmts():
        if isinstance(st, (ast.Assign, ast.Expr, ast.Return)):
            for n_ in ast.walk(st):
                if isinstance(n_, ast.Call) and isinstance(n_.func, ast.Attribute) and n_.func.attr == "cell_averaged_joint_pdf" and n_.args:
                    grids.append(b2.term(n_.args[0], st))
    for gt in grids:
        if gt[0] == "comp" and gt[1] == "list" and not gt[5]:
            t = gt[2]
            ar = bind_arange(t)
            i = ("idx", gt[3], "enumerate")
            lim = ("sub", lim_attr, i)
            dl = ("sub", del_attr, i)
            why = (f"the grid of dimension i must be arange(min(limits[i]), max(limits[i]) + deltas[i], deltas[i]) with limits and deltas of the SAME i, "
                   f"for i over enumerate(self.limits); found {show(t)[:200]} over {show(gt[4])[:60]}")
            if ar is not None:
                okg = gt[4] == ("call", G("enumerate"), (lim_attr,), ()) and ar["start"] in (("call", G("min"), (lim,), ()), ("call", G("numpy.min"), (lim,), ())) and ar["step"] == dl \
                    and any(algebra.same(ar["stop"], ("bin", "+", ("call", mx, (lim,), ()), dl)) for mx in (G("max"), G("numpy.max")))
        else:
            why = f"the cell-centre grids must be built one per dimension from self.limits / self.deltas; found {show(gt)[:160]}"
    rep.check(okg, "C02.grid", f"{q2}:cell-centres", f2.where(), "grid_i = arange(min(limits[i]), max(limits[i]) + deltas[i], deltas[i])", why)
