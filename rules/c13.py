"""C13 - exponentiated-Weibull least squares = weighted quantile regression, any weights (wiring/formula)."""
import ast

from vstat.loader import AnalysisError
from vstat.terms import IT, builder, show, SELF, NONE, G, alts, walk, mentions, phi, subst, strip_none
from vstat.guards import path_conditions, exception_name
from vstat.cfg import cfg_of
from vstat.dataflow import rd_of
from vstat.sigs import bind
from vstat.align import Aligner, Tag
from vstat import algebra

EW = "virocon.distributions.ExponentiatedWeibullDistribution"
P = lambda n: ("param", n)
EXPL = ("C13.zeros: the non-zero index set of x is applied to x, p and w alike in both helpers; C13.formula: with x*=log10 x, "
        "p*=log10(-ln(1-p^(1/delta))) the returned (alpha, beta) equal 10^(xbar - b pbar) and 1/b with b the weighted regression slope - "
        "compared as rational functions of the sum atoms (any algebraically equal rearrangement accepted); plotting positions "
        "p=(arange(1,n+1)-0.5)/n on the ascending sample; C13.norm: the weights entering those sums are divided by their own sum after the "
        "zero filter (or the estimator carries the sum-of-weights factors); C13.weights: truth table over the kind of weights "
        "(None/linear/quadratic/cubic/other string/array/non-iterable); C13.delta: free delta = fmin(_wlsq_error, delta0, args=(x,p,w))[0] then "
        "the estimate with the same triple, _wlsq_error = sum w (x - alpha(-ln(1-p^(1/delta)))^(1/beta))^2; C13.order: sample, plotting positions "
        "and weights live in the same (sorted-rank) index space at every call.")
ASSUME = ["fmin finding a local minimiser is not decided", "numpy elementwise semantics"]


def run(prog, rep):
    rep.explanation = EXPL
    rep.assumptions = ASSUME
    rep.part(estimator, prog, rep)
    rep.part(wlsq_error, prog, rep)
    rep.part(fit_lsq, prog, rep)
    rep.part(stable, prog, rep)
    rep.expect_min("C13.zeros", 2)
    rep.expect_min("C13.formula", 4)
    rep.expect_min("C13.norm", 1)
    rep.expect_min("C13.weights", 7)
    rep.expect_min("C13.delta", 4)
    rep.expect_min("C13.order", 2)
    # a least-squares request must arrive: Distribution.fit hands the data and the weights unchanged to _fit_lsq for 'lsq' / 'wlsq'
    # (the rows of C12.dispatch), and a joint model completes a fit description without losing its method (the rows of C09.defaults)
    from vstat.report import Relabel
    from . import c12, c09
    req = Relabel(rep, "C13.request")
    rep.part(c12.dispatch, prog, req)
    rep.part(c09.defaults, prog, req)
    rep.expect_min("C13.request", 7)
    rep.explanation += (" C13.request: the rows of C12.dispatch and C09.defaults - method 'lsq'/'wlsq' reaches _fit_lsq(data, weights) with the data and "
                        "the weights as given (not sorted, not replaced), also when the request is a fit description of a joint model.")


def filtered(name, keyname="x"):
    return ("sub", P(name), ("call", G("numpy.nonzero"), (P(keyname),), ()))


X, PP, W = ("sym", "X"), ("sym", "P"), ("sym", "W")


def _log1p_as_log(t):
    """np.log1p(-y) is ln(1 - y): rewritten bottom-up so that the formula rules meet one spelling (which spelling is used is the
    business of C13.formula :stable)"""
    if isinstance(t, frozenset):
        return frozenset(_log1p_as_log(x) for x in t)
    if not isinstance(t, tuple) or not t:
        return t
    if not isinstance(t[0], str):
        return tuple(_log1p_as_log(x) for x in t)
    if t[0] == "call" and t[1] == G("numpy.log1p") and len(t[2]) == 1 and not t[3]:
        a = _log1p_as_log(t[2][0])
        if a[0] == "neg":
            return ("call", G("numpy.log"), (("bin", "-", ("const", 1), a[1]),), ())
        return ("call", G("numpy.log"), (("bin", "+", ("const", 1), a),), ())
    if t[0] in ("const", "param", "global", "self", "unknown"):
        return t
    return tuple(_log1p_as_log(x) if isinstance(x, (tuple, frozenset)) else x for x in t)


def abstract(t):
    m = {filtered("x"): X, filtered("p"): PP, filtered("w"): W}
    return _log1p_as_log(subst(t, m))


def stable(prog, rep):
    """ln(1 - p**(1/delta)) loses every digit once p**(1/delta) < 1.1e-16 (first plotting position, small delta): 1 - y rounds to 1,
    ln gives 0, log10 gives -inf and all weighted means become nan; np.log1p(-y) has no such barrier."""
    for name in ("_estimate_alpha_beta", "_wlsq_error"):
        fn = prog.func(f"{EW}.{name}")
        b = builder(prog, fn, inline=False)
        bad = []
        for st in cfg_of(fn).all_stmts():
            for n in ast.walk(st) if isinstance(st, (ast.Assign, ast.Return, ast.Expr)) else []:
                if isinstance(n, ast.Call):
                    t = b.term(n, st)
                    if t[0] == "call" and t[1] in (G("numpy.log"), G("math.log")) and len(t[2]) == 1 and t[2][0][0] == "bin" and t[2][0][1] == "-" \
                            and t[2][0][2] == ("const", 1) and any(w[0] == "bin" and w[1] == "**" for w in walk(t[2][0][3])):
                        bad.append(st)
        rep.check(not bad, "C13.formula", f"{fn.qualname}:stable", fn.where(bad[0]) if bad else fn.where(), "ln(1 - p**(1/delta)) is computed as log1p(-p**(1/delta))",
                  "np.log(1 - p ** (1 / delta)): for the first plotting positions and a small delta the subtraction rounds to exactly 1, the logarithm is 0 and its log10 "
                  "-inf - EW(f_delta=0.2).fit(x, method='lsq') with n = 1000 returns alpha = beta = nan, and a free delta stops at that barrier; use np.log1p(-p ** (1 / delta))")


def C(fn, *args):
    return ("call", G(fn), tuple(args), ())


def S(arg):
    return C("numpy.sum", arg)


def mul(*xs):
    t = xs[0]
    for x in xs[1:]:
        t = ("bin", "*", t, x)
    return t


def lin_p(delta=P("delta"), p=PP):
    return ("neg", C("numpy.log", ("bin", "-", ("const", 1), ("bin", "**", p, ("bin", "/", ("const", 1), delta)))))


def estimator(prog, rep):
    q = f"{EW}._estimate_alpha_beta"
    fn = prog.func(q)
    rep.analysed(fn)
    b = builder(prog, fn, inline=True)
    ret = [s for s in cfg_of(fn).all_stmts() if isinstance(s, ast.Return)]
    if len(ret) != 1:
        raise AnalysisError(f"{q}: expected one return")
    t = b.term(ret[0].value, ret[0])
    site = fn.where(ret[0])
    if t[0] != "tuple" or len(t[1]) != 2:
        raise AnalysisError(f"{q}: expected 'return alpha_hat, beta_hat'")
    ta = abstract(t)
    raw = [n for n in ("x", "p", "w") if any(s == P(n) and True for s in _outside_nonzero(ta))]
    rep.check(not raw, "C13.zeros", f"{q}:filter", site, "x, p and w are all restricted to the non-zero x before use",
              f"zero observations must be removed from x, p AND w with the same index set np.nonzero(x); unfiltered use of {raw}")
    XS = C("numpy.log10", X)
    PS = C("numpy.log10", lin_p())
    alpha_t, beta_t = ta[1]
    verdict = None
    for label, Wt, sw in (("normalised", ("bin", "/", W, S(W)), ("const", 1)), ("raw", W, S(W))):
        swp, swx = S(mul(Wt, PS)), S(mul(Wt, XS))
        swpx, swpp = S(mul(Wt, PS, XS)), S(mul(Wt, PS, PS))
        bnum = ("bin", "-", mul(sw, swpx), mul(swp, swx))
        bden = ("bin", "-", mul(sw, swpp), mul(swp, swp))
        slope = ("bin", "/", bnum, bden)
        icpt = ("bin", "/", ("bin", "-", swx, mul(slope, swp)), sw)
        ok_b = algebra.equal_rat(beta_t, ("bin", "/", ("const", 1), slope))
        ok_a = alpha_t[0] == "bin" and alpha_t[1] == "**" and algebra.same(alpha_t[2], ("const", 10)) and algebra.equal_rat(alpha_t[3], icpt)
        if ok_a and ok_b:
            verdict = label
            break
        # the special (Sum w = 1) formula applied to raw weights
        if label == "raw":
            bnum1 = ("bin", "-", swpx, mul(swp, swx))
            bden1 = ("bin", "-", swpp, mul(swp, swp))
            slope1 = ("bin", "/", bnum1, bden1)
            icpt1 = ("bin", "-", swx, mul(slope1, swp))
            if algebra.equal_rat(beta_t, ("bin", "/", ("const", 1), slope1)) and alpha_t[0] == "bin" and algebra.equal_rat(alpha_t[3], icpt1):
                verdict = "unnormalised"
    rep.check(verdict is not None, "C13.formula", f"{q}:regression", site,
              "alpha = 10^(xbar - b pbar), beta = 1/b with the weighted regression slope b (normal-form equality)",
              "the returned (alpha, beta) are not the weighted least-squares regression of log10 x on log10(-ln(1-p^(1/delta))) "
              f"(10^intercept, 1/slope) in any of the accepted forms; beta term: {show(beta_t)[:200]}")
    rep.check(verdict != "unnormalised", "C13.norm", f"{q}:weights-sum-to-one", site,
              "weights are divided by their sum after the zero filter (or the estimator carries the sum-of-weights factors)",
              "pbar = sum(w p*), xbar = sum(w x*) are weighted MEANS only if sum(w) = 1: the weights must be normalised after the zero filter on every "
              "path into the formula (weights=None gives np.ones_like -> sum n, arrays are arbitrary); otherwise the slope is wrong (negative shape for 'lsq')")
    # the linearisation itself
    okp = mentions(ta, PS) and mentions(ta, XS)
    rep.check(okp, "C13.formula", f"{q}:linearisation", site, "x* = log10 x, p* = log10(-ln(1 - p^(1/delta)))",
              "the regression must be on x* = log10(x) and p* = log10(-ln(1 - p**(1/delta))) of the filtered arrays")


def _outside_nonzero(t):
    """Sub-terms of t that are not inside an np.nonzero(...) call."""
    yield t
    if not isinstance(t, tuple):
        return
    if t[0] == "call" and t[1] == G("numpy.nonzero"):
        return
    for x in t[1:]:
        if isinstance(x, tuple):
            if x and isinstance(x[0], str):
                yield from _outside_nonzero(x)
            else:
                for y in x:
                    if isinstance(y, tuple):
                        if y and isinstance(y[0], str):
                            yield from _outside_nonzero(y)
                        else:
                            for z in y:
                                if isinstance(z, tuple) and z and isinstance(z[0], str):
                                    yield from _outside_nonzero(z)
        elif isinstance(x, frozenset):
            for y in x:
                yield from _outside_nonzero(y)


def wlsq_error(prog, rep):
    q = f"{EW}._wlsq_error"
    fn = prog.func(q)
    rep.analysed(fn)
    b = builder(prog, fn, inline=True, no_inline=("_estimate_alpha_beta",))
    ret = [s for s in cfg_of(fn).all_stmts() if isinstance(s, ast.Return)]
    t = abstract(b.term(ret[-1].value, ret[-1]))
    site = fn.where(ret[-1])
    raw = [n for n in ("x", "p", "w") if any(s == P(n) for s in _outside_nonzero(t))]
    est_calls = {s for s in walk(t) if s[0] == "call" and s[1] in (G(f"{EW}._estimate_alpha_beta"), ("attr", SELF, "_estimate_alpha_beta"))}
    # arguments of the nested estimator call may be the filtered or the raw triple (the callee filters itself)
    ok_est = len(est_calls) == 1
    est = next(iter(est_calls)) if ok_est else None
    if est is not None:
        ok_est = est[2] in ((P("delta"), X, PP, W), (P("delta"), P("x"), P("p"), P("w"))) and not est[3]
        raw = [n for n in raw if not (est[2][1:] == (P("x"), P("p"), P("w")))] if ok_est else raw
        if est[2][1:] == (P("x"), P("p"), P("w")):
            t = subst(t, {est: ("call", est[1], (P("delta"), X, PP, W), ())})
            est = ("call", est[1], (P("delta"), X, PP, W), ())
            raw = [n for n in ("x", "p", "w") if any(s == P(n) for s in _outside_nonzero(t))]
    rep.check(not raw, "C13.zeros", f"{q}:filter", site, "x, p and w are all restricted to the non-zero x before use",
              f"zero observations must be removed from x, p AND w alike; unfiltered use of {raw}")
    ok = False
    if est is not None and ok_est:
        ah, bh = IT(est, 0), IT(est, 1)
        xhat = mul(ah, ("bin", "**", lin_p(), ("bin", "/", ("const", 1), bh)))
        want = S(mul(W, ("bin", "**", ("bin", "-", X, xhat), ("const", 2))))
        ok = algebra.same(t, want)
    rep.check(ok, "C13.delta", f"{q}:error", site, "sum w (x - alpha (-ln(1 - p^(1/delta)))^(1/beta))^2 with (alpha, beta) estimated for the same delta, x, p, w",
              f"the delta criterion must be the weighted squared x-space error of the quantile relation with (alpha, beta) = _estimate_alpha_beta(delta, x, p, w); found {show(t)[:260]}")


KINDS = ("none", "linear", "quadratic", "cubic", "otherstr", "array", "noniterable")


_TABLES = {}     # ("global", dotted name) -> value of a module-level literal table (filled per run by fit_lsq)


def _load_tables(prog):
    _TABLES.clear()
    mod = prog.modules.get("virocon.distributions")
    for name, expr in (getattr(mod, "constants", None) or {}).items():
        try:
            val = ast.literal_eval(expr)
        except Exception:
            continue
        if isinstance(val, (dict, tuple, list, set, frozenset)):
            _TABLES[G(f"virocon.distributions.{name}")] = val


def _table_values(t, kind):
    """TABLE[weights.lower()] read for the keyword at hand"""
    w = P("weights")
    low = ("call", ("attr", w, "lower"), (), ())
    m = {}
    for tb, val in _TABLES.items():
        if isinstance(val, dict) and kind in val and isinstance(val[kind], (int, float)):
            for key in (low, w):
                m[("sub", tb, key)] = ("const", val[kind])
    from vstat.terms import subst
    return subst(t, m) if m else t


def _eval_w(lit, kind):
    w = P("weights")
    low = ("call", ("attr", w, "lower"), (), ())
    if lit[0] == "not":
        v = _eval_w(lit[1], kind)
        return None if v is None else not v
    if lit == ("isnone", w):
        return kind == "none"
    if lit == ("call", G("isinstance"), (w, G("str")), ()):
        return kind in ("linear", "quadratic", "cubic", "otherstr")
    if lit[0] == "cmp" and lit[1] == "==" and lit[2] in (low, w) and lit[3][0] == "const":
        return kind == lit[3][1]
    if lit[0] == "cmp" and lit[1] == "in" and lit[2] in (low, w) and lit[3] in _TABLES:
        # membership in a module-level table of keywords
        return kind in _TABLES[lit[3]]
    if lit[0] == "cmp" and lit[1] == "in" and lit[2] in (low, w) and lit[3][0] in ("tuple", "list", "set") and all(e[0] == "const" for e in lit[3][1]):
        return kind in [e[1] for e in lit[3][1]]
    if lit[0] == "handler":
        return kind == "noniterable"
    if lit[0] in ("and", "or"):
        vs = [_eval_w(x, kind) for x in lit[1]]
        if lit[0] == "and":
            return False if False in vs else None if None in vs else True
        return True if True in vs else None if None in vs else False
    return None


def fit_lsq(prog, rep):
    q = f"{EW}._fit_lsq"
    fn = prog.func(q)
    rep.analysed(fn)
    b = builder(prog, fn, inline=False)
    pcs = path_conditions(prog, fn, b)
    cfg = cfg_of(fn)
    rd = rd_of(fn)
    data = P("data")
    dat = ("call", G("numpy.asarray_chkfinite"), (data,), ())
    # the call sites
    calls = []
    for st in cfg.all_stmts():
        if isinstance(st, ast.Assign) and isinstance(st.value, (ast.Call, ast.Subscript)):
            t = b.term(st.value, st)
            inner = t[1] if t[0] == "sub" else t
            if inner[0] == "call" and inner[1] == ("attr", SELF, "_estimate_alpha_beta"):
                calls.append(("est", st, inner, t))
            if inner[0] == "call" and inner[1] == G("scipy.optimize.fmin"):
                calls.append(("fmin", st, inner, t))
    if len([c for c in calls if c[0] == "est"]) < 1 or not [c for c in calls if c[0] == "fmin"]:
        raise AnalysisError(f"{q}: expected _estimate_alpha_beta call(s) and one fmin call")
    triples = []
    for kind, st, c, full in calls:
        if kind == "est":
            triples.append((st, c[2][1:4], c[2][0]))
        else:
            bd = bind(c)
            a = bd.get("args") if bd else None
            triples.append((st, a[1] if a is not None and a[0] == "tuple" else None, None))
    x_t, p_t, w_t = triples[0][1]
    same = all(tr[1] == (x_t, p_t, w_t) for tr in triples)
    rep.check(same, "C13.delta", f"{q}:same-triple", fn.where(), "fmin and both estimates receive the same (x, p, weights)",
              "the delta search (fmin args=) and the final alpha/beta estimate must use the same (x, p, weights) triple")
    # fmin shape
    for kind, st, c, full in calls:
        if kind == "fmin":
            bd = bind(c)
            ok = (bd is not None and bd.get("func") == ("attr", SELF, "_wlsq_error") and bd.get("x0") == ("attr", SELF, "delta")
                  and full[0] == "sub" and full[2] == ("const", 0))
            tgt_ok = isinstance(st.targets[0], ast.Attribute) and st.targets[0].attr == "delta"
            pc = pcs.of(st)
            rep.check(ok and tgt_ok, "C13.delta", f"{q}:fmin", fn.where(st), "self.delta = fmin(self._wlsq_error, self.delta, args=(x, p, w))[0]",
                      f"a free delta must be the minimiser fmin(self._wlsq_error, <current delta>, args=(x, p, weights))[0]; found {show(full)[:200]}")
    for kind, st, c, full in calls:
        if kind == "est":
            tg = st.targets[0]
            ok = c[2][0] == ("attr", SELF, "delta") and isinstance(tg, ast.Tuple) and [getattr(e, "attr", None) for e in tg.elts] == ["alpha", "beta"]
            rep.check(ok, "C13.delta", f"{q}:estimate#{[c_[1] for c_ in calls if c_[0] == 'est'].index(st)}", fn.where(st),
                      "self.alpha, self.beta = _estimate_alpha_beta(self.delta, x, p, w)",
                      "alpha and beta (in this order) must be estimated for the delta in force (self.delta)")
    # plotting positions on the ascending sample
    # the finite-checked sample, possibly converted to float in the same call
    fl = (G("float"), G("numpy.float64"), G("numpy.double"))
    dats = [dat] + [("call", G("numpy.asarray_chkfinite"), (data,), (("dtype", f_),)) for f_ in fl] + [("call", G("numpy.asarray_chkfinite"), (data, f_), ()) for f_ in fl]
    dat = next((d_ for d_ in dats if any(w == d_ for w in walk(x_t))), dat)
    xs_ok = x_t in (("call", G("numpy.sort"), (dat,), ()), ("sub", dat, ("call", G("numpy.argsort"), (dat,), ())))
    # x ** 2, x ** 3 and their sums are computed in the dtype of the data: for integer observations (wave heights in mm, the
    # default int64 included) sum(x ** 3) wraps round, the weights become negative and fmin maximises the error
    rep.check(dat in dats[1:], "C13.formula", f"{q}:float", fn.where(), "the sample is converted to float before powers of it are summed",
              "np.asarray_chkfinite(data) keeps an integer dtype: 'cubic' weights x**3 / sum(x**3) of int64 observations around 1e5 (n = 5000) overflow silently - negative "
              "weights, alpha 2.51e5 / beta 79.2 instead of 1.07e5 / 1.572 for the same values as floats; convert with dtype=float")
    n = ("call", G("len"), (x_t,), ())
    want_p = ("bin", "/", ("bin", "-", ("call", G("numpy.arange"), (("const", 1), ("bin", "+", n, ("const", 1))), ()), ("const", 0.5)), n)
    okp = algebra.same(p_t, want_p)
    rep.check(xs_ok, "C13.formula", f"{q}:sorted", fn.where(), "x = np.sort(asarray_chkfinite(data))",
              f"the sample must be finite-checked and sorted ascending; found {show(x_t)[:120]}")
    rep.check(okp, "C13.formula", f"{q}:positions", fn.where(), "p = (arange(1, n+1) - 0.5)/n, n = len(x)",
              f"plotting positions must be (i - 0.5)/n for i = 1..n with n = len(x); found {show(p_t)[:160]}")
    # weights truth table
    at = calls[0][1]
    wname = None
    for kind, st, c, full in calls:
        if kind == "est" and len(st.value.args) > 3 and isinstance(st.value.args[3], ast.Name):
            wname = st.value.args[3].id
    defs = rd.reaching(wname, at) if wname else []
    # an unconditional renormalisation ``w = w / np.sum(w)`` after the branch ladder is behaviour preserving: look through it
    for _ in range(3):
        if len(defs) == 1 and defs[0].kind == "assign" and not pcs.of(defs[0].stmt):
            tnorm = b.def_term(defs[0])
            prev = b.name(wname, defs[0].stmt, {})
            if tnorm == ("bin", "/", prev, ("call", G("numpy.sum"), (prev,), ())):
                defs = rd.reaching(wname, defs[0].stmt)
                continue
        break
    _load_tables(prog)
    raises = [st for st in cfg.all_stmts() if isinstance(st, ast.Raise)]
    xk = lambda k: ("bin", "**", x_t, ("const", k)) if k > 1 else x_t
    expected = {"none": "const", "linear": 1, "quadratic": 2, "cubic": 3}
    for kind in KINDS:
        reach = []
        for d in defs:
            if d.kind == "param":
                vals = [True]
                # the formal itself survives only if no branch replaced it: handled by other defs' conditions
                continue
            vals = [_eval_w(l, kind) for l in pcs.of(d.stmt)]
            if all(v is True for v in vals) or (kind == "array" and all(v is not False for v in vals) and any(l == ("not", ("call", G("isinstance"), (P("weights"), G("str")), ())) for l in pcs.of(d.stmt))):
                reach.append(d)
        rs = []
        for st in raises:
            vals = [_eval_w(l, kind) for l in pcs.of(st)]
            if all(v is True for v in vals):
                rs.append(exception_name(st, b))
        inst = f"{q}:weights:{kind}"
        if kind in ("otherstr", "noniterable"):
            rep.check(rs == ["ValueError"], "C13.weights", inst, fn.where(), "-> ValueError",
                      f"weights of kind '{kind}' must raise ValueError; reaches {rs or 'no raise'}")
            continue
        if rs:
            rep.fail("C13.weights", inst, fn.where(), f"valid weights of kind '{kind}' raise {rs}")
            continue
        # keep the last def in program order among those reached (later assignment overrides)
        terms = [_table_values(b.def_term(d), kind) for d in reach]
        if kind == "array":
            raw = ("call", G("numpy.asarray_chkfinite"), (P("weights"),), ())
            raws = [raw] + [("call", G("numpy.asarray_chkfinite"), (P("weights"),), (("dtype", f_),)) for f_ in fl] + [("call", G("numpy.asarray_chkfinite"), (P("weights"), f_), ()) for f_ in fl]
            ok = bool(terms) and all(any(mentions(tm, r_) for r_ in raws) for tm in terms)
            rep.check(ok, "C13.weights", inst, fn.where(), "array weights go through asarray_chkfinite",
                      f"array weights must be the finite-checked user array (one weight per observation); found {[show(tm)[:80] for tm in terms]}")
            # w / sum(w) is computed in the dtype of the array: an int64 sum wraps round beyond 9.2e18, a float16 sum overflows at 65504
            okf = bool(terms) and all(any(mentions(tm, r_) for r_ in raws[1:]) for tm in terms)
            rep.check(okf, "C13.weights", inst + ":float", fn.where(), "array weights are converted to float before they are summed",
                      "np.asarray_chkfinite(weights) keeps the dtype of the array: fit(x, 'wlsq', weights=base * 10**16) with int64 base in 1..9 (n = 1000) wraps round in "
                      "sum(w) - alpha 0.134 / beta -7.66 instead of 2.0168 / 1.5606 for the same weights as floats, no error; float16 weights give nan; convert with dtype=float")
            continue
        if kind == "none":
            ok = len(terms) == 1 and terms[0] in (("call", G("numpy.ones_like"), (x_t,), ()), ("call", G("numpy.ones"), (n,), ()))
            rep.check(ok, "C13.weights", inst, fn.where(), "None -> equal weights", f"weights=None must mean equal weights (np.ones_like(x)); found {[show(tm)[:80] for tm in terms]}")
            continue
        k = expected[kind]
        ok = len(terms) == 1 and (algebra.same(terms[0], xk(k)) or algebra.same(terms[0], ("bin", "/", xk(k), S(xk(k)))))
        if not ok and wname:
            # the value may be assembled AFTER the branch ladder (powers chosen per kind, normalised once): read the
            # alternatives of the final value with their guards instead of the defining statements
            from vstat.terms import guarded_alts, degrade
            gb = builder(prog, fn, guarded=True)
            cands = set()
            for lits, t_ in guarded_alts(gb.name(wname, at, {})):
                if any(_eval_w(l, kind) is False for l in lits):
                    continue
                cands.add(_table_values(degrade(t_), kind))
            if len(cands) == 1:
                t1 = next(iter(cands))
                ok = algebra.same(t1, xk(k)) or algebra.same(t1, ("bin", "/", xk(k), S(xk(k))))
                terms = [t1]
        rep.check(ok, "C13.weights", inst, fn.where(), f"'{kind}' -> x^{k} (over its sum)",
                  f"weights='{kind}' must be x**{k} (optionally over its own sum); found {[show(tm)[:100] for tm in terms]}")
    # alignment of the triple
    al = Aligner({data: Tag("pos"), P("weights"): Tag("pos")})
    for k_, (st, tr, _) in enumerate(triples):
        if tr is None:
            continue
        tags = [al.tag(a) for a in tr]
        out = tags[0]
        conflict = []
        for name, tg in zip(("x", "p", "weights"), tags):
            for a in (alts(tr[("x", "p", "weights").index(name)]) if name == "weights" else [None]):
                pass
        # weights may be a phi of several kinds: check each alternative against x's space
        xs = tags[0].space
        for a in alts(tr[2]):
            ta = al.tag(a)
            if ta.space not in ("neutral", xs):
                conflict.append(f"weights alternative {show(a)[:90]} is in {ta!r} space but the sample is in {tags[0]!r} space")
        if tags[1].space not in ("neutral", xs):
            conflict.append(f"plotting positions are in {tags[1]!r} space but the sample is in {tags[0]!r} space")
        conflict += [m for _, m in al.violations]
        rep.check(not conflict and xs == "rank", "C13.order", f"{q}:aligned#{k_}", fn.where(st),
                  "sample, plotting positions and weights are all in sorted-rank space",
                  "per-observation weights ('one weight for each point in data') are aligned with the INPUT order but multiply the SORTED sample: "
                  "they must be permuted by the same sort; " + "; ".join(dict.fromkeys(conflict)))
        al.violations.clear()
