"""C07 - samples follow the model they are drawn from and are reproducible by seed (wiring)."""
import ast

from vstat.loader import AnalysisError
from vstat.terms import builder, guarded_alts, neg_test, show, SELF, NONE, G, alts, walk, mentions, phi, strip_none
from vstat.guards import path_conditions
from vstat.cfg import cfg_of
from vstat.sigs import bind
from vstat import algebra
from .chain import check_chain, model_attr
from .distfam import families, P, A, DIST

JM = "virocon.jointmodels"
GHM = f"{JM}.GlobalHierarchicalModel"
EXPL = ("C07.chain: GlobalHierarchicalModel.draw_sample fills, per column K, samples[:, K] = distributions[K].draw_sample(n | 1, "
        "[samples[:, conditional_on[K]]], random_state=...) on the right None-branch for all columns of an (n, n_dim) matrix that is returned; "
        "C07.rng: in every function with a random_state formal each RNG-consuming call (draw_sample / rvs / conditional_sample / generator "
        "methods) receives random_state = the formal or default_rng(formal); in the joint sampler one Generator conversion on the not-None "
        "path dominates the per-dimension loop and is outside it; C07.family: each family draws rvs(*slots, size=_get_rvs_size(n, slots), "
        "random_state=random_state) with the cdf's slot tuple; C07.size: _get_rvs_size returns (n, len(par)) for vector parameters, n otherwise; "
        "C07.noseed: no np.random.seed, no generator from a literal seed, no legacy global-state sampler anywhere in the package "
        "(allow-list: NSphere._random_unit_sphere_points, documented deterministic).")
ASSUME = ["scipy rvs honours random_state; np.random.default_rng returns a Generator unaltered",
          "the distributional statement (DKW) and bit-for-bit equality are runtime facts and not decided"]

RNG_METHODS = {"draw_sample", "rvs", "conditional_sample"}
GEN_METHODS = {"uniform", "normal", "random", "standard_normal", "integers", "choice", "permutation", "shuffle", "exponential"}
LEGACY = {"seed", "rand", "randn", "randint", "random", "random_sample", "normal", "uniform", "choice", "shuffle", "permutation",
          "standard_normal", "exponential", "weibull", "lognormal", "vonmises", "gamma"}
SEED_ALLOW = {"virocon._nsphere.NSphere._random_unit_sphere_points": "n-D direction set is documented as deterministic (fixed seed 43)"}


def run(prog, rep):
    rep.explanation = EXPL
    rep.assumptions = ASSUME
    rep.part(chain, prog, rep)
    rep.part(rng, prog, rep)
    rep.part(family, prog, rep)
    rep.part(size, prog, rep)
    rep.part(noseed, prog, rep)
    rep.expect_min("C07.chain", 5)
    rep.expect_min("C07.rng", 14)
    rep.expect_min("C07.family", 16)
    rep.expect_min("C07.size", 2)
    rep.expect_min("C07.noseed", 2)
    # seed 0 is a seed: random_state is never tested by truth
    from .falsy import rows as _falsy_rows
    rep.part(_falsy_rows, prog, rep, "C07.seedzero", lambda name: "random_state" in name or "seed" in name)
    rep.expect_min("C07.seedzero", 1)
    from .purity import row as _stateless_row
    rep.part(_stateless_row, prog, rep, "C07", 5)
    # "each conditional variable is drawn from its conditional distribution": how ConditionalDistribution.draw_sample hands the
    # dependence values to its template is C08's wiring, filed here too
    from .purity import fresh_draw
    rep.part(fresh_draw, prog, rep, "C07.fresh")
    rep.explanation += " C07.fresh: draw_sample of every joint model reads no attribute written between calls - the requested size is honoured by a new draw."
    from .shared import conditional_rows
    conditional_rows(prog, rep, "C07.conditional", ["draw_sample"], 4)

def chain(prog, rep):
    fn = prog.func(f"{GHM}.draw_sample")
    b = builder(prog, fn)
    n = P("n")

    def own(s, arg):
        return True, ""

    def extra(s, args, kw, conditional):
        probs = []
        if conditional:
            if not algebra.same(args[0], ("const", 1)) and args[0] != n:
                probs.append(f"conditional draw: one value per conditioning value expected (n=1 with the vector of conditioning values), found n={show(args[0])[:40]}")
        else:
            if args[0] != n:
                probs.append(f"unconditional draw must request n samples, found {show(args[0])[:40]}")
        return probs

    stores = check_chain(prog, rep, "C07.chain", fn, "draw_sample", "self", own_arg=own, given_matrix=lambda s: s.base,
                         label="samples", given_kw="given", given_pos=1, extra=extra)
    bases = {s.base for s in stores}
    ret = [s for s in cfg_of(fn).all_stmts() if isinstance(s, ast.Return)]
    t = b.term(ret[-1].value, ret[-1])
    shape_ok = t in bases and t[0] == "call" and t[1] in (G("numpy.zeros"), G("numpy.empty")) and t[2][:1] == (("tuple", (n, ("attr", SELF, "n_dim"))),)
    rep.check(shape_ok, "C07.chain", f"{fn.qualname}:shape", fn.where(ret[-1]), "returns the filled (n, n_dim) matrix",
              f"the sampler must return the matrix it filled, allocated with shape (n, self.n_dim); found {show(t)[:100]}")


def _rs_ok(t, formal=("param", "random_state")):
    conv = ("call", G("numpy.random.default_rng"), (formal,), ())
    out = True
    for a in alts(t):
        for lits, v in guarded_alts(a):
            # None may stand for the caller's random_state only where that is None
            out = out and (v in (formal, conv) or (v == NONE and ("isnone", formal) in lits))
    return out


def rng(prog, rep):
    n_sites = 0
    for q, fn in sorted(prog.functions.items()):
        if "random_state" not in fn.params or fn.parent is not None:
            continue
        if isinstance(fn.node, ast.Lambda):
            continue
        body = [s for s in fn.body if not (isinstance(s, ast.Expr) and isinstance(s.value, ast.Constant))]
        if not body or all(isinstance(s, ast.Pass) for s in body):
            continue  # abstract
        rep.analysed(fn)
        b = builder(prog, fn, inline=False)
        cfg = cfg_of(fn)
        sites = []
        conversions = []
        for node_id, st in cfg.stmt.items():
            exprs = [st.test] if isinstance(st, (ast.If, ast.While)) else [st.iter] if isinstance(st, ast.For) else \
                [st] if isinstance(st, (ast.Assign, ast.Expr, ast.AugAssign, ast.Return)) else []
            for e in exprs:
                for c in ast.walk(e):
                    if not isinstance(c, ast.Call):
                        continue
                    f = c.func
                    if isinstance(f, ast.Attribute) and f.attr in RNG_METHODS:
                        sites.append((st, c, "call"))
                    elif isinstance(f, ast.Attribute) and f.attr in GEN_METHODS:
                        recv = b.term(f.value, st)
                        sites.append((st, c, "gen:" + show(recv)[:60]))
            if isinstance(st, ast.Assign) and isinstance(st.value, ast.Call):
                t = b.term(st.value, st)
                if t[0] == "call" and t[1] == G("numpy.random.default_rng"):
                    conversions.append((st, t))
        for st, c, kind in sites:
            n_sites += 1
            inst = f"{q}:{ast.unparse(c.func)}"
            site = fn.where(c)
            if kind.startswith("gen:"):
                recv = b.term(c.func.value, st)
                ok = recv == ("call", G("numpy.random.default_rng"), (P("random_state"),), ())
                rep.check(ok, "C07.rng", inst, site, "generator is default_rng(random_state)",
                          f"random numbers must come from np.random.default_rng(random_state), receiver is {show(recv)[:80]}")
                continue
            ct = b.term(c, st)
            kw = dict(ct[3]) if ct[0] == "call" else {}   # keywords of the term: a literal ** display counts as keywords
            if "random_state" not in kw:
                rep.fail("C07.rng", inst, site, "RNG-consuming call does not receive random_state: the caller's seed is ignored for this draw")
                continue
            t = kw["random_state"]
            rep.check(_rs_ok(t), "C07.rng", inst, site, "random_state threaded",
                      f"random_state= must be the caller's random_state (or default_rng of it), found {show(t)[:100]}")
        # single-Generator rule for samplers that draw more than once
        if fn.name == "draw_sample":
            in_loop = [s for s in sites if cfg.enclosing_loops(s[0])]
            multi = len(sites) > 1 or in_loop
            if multi and not in_loop:
                # draws on mutually exclusive paths (an early return for one case, the general case below it) are ONE draw per call
                nodes_ = [cfg.node(s[0]) for s in sites]
                if all(x is not None for x in nodes_) and not any(cfg.reachable(x, y) for x in nodes_ for y in nodes_ if x is not y):
                    multi = False
            if multi:
                inst = f"{q}:single-generator"
                # every draw reads ONE name, bound outside every loop by the same definitions, whose value is
                # default_rng(random_state) wherever random_state is not None (None / the formal itself only where it is None)
                gb = builder(prog, fn, inline=False, guarded=True)
                formal = P("random_state")
                conv = ("call", G("numpy.random.default_rng"), (formal,), ())
                names, defsets, good = set(), set(), True
                for st, c, kind in sites:
                    e = {k.arg: k.value for k in c.keywords if k.arg}.get("random_state")
                    if not isinstance(e, ast.Name):
                        good = False
                        continue
                    names.add(e.id)
                    ds = [d for d in b.rd.reaching(e.id, cfg.node(st)) if d.kind != "del"]
                    defsets.add(frozenset(d.idx for d in ds))
                    if any(d.stmt is not None and cfg.enclosing_loops(d.stmt) for d in ds):
                        good = False
                    seen_conv = False
                    for lits, v in guarded_alts(gb.term(e, st)):
                        if v == conv:
                            seen_conv = True
                        elif v in (formal, NONE) and ("isnone", formal) in lits:
                            pass
                        else:
                            good = False
                    good = good and seen_conv
                good = good and len(names) == 1 and len(defsets) == 1
                rep.check(bool(good), "C07.rng", inst, fn.where(),
                          "one Generator is built from the seed before the per-dimension loop and used by every draw",
                          "a sampler that draws several times must convert random_state to ONE np.random.default_rng(random_state) outside the "
                          "loop, on the not-None path, dominating every draw: an integer seed handed to each dimension makes the dimensions comonotone")
    rep.extra["C07.rng.sites"] = n_sites


def family(prog, rep):
    for fam in families(prog, include_generic=True):
        fn = fam.m["draw_sample"]
        rep.analysed(fn)
        b = fam.b(fn, inline=not fam.generic)
        ret = fam.return_stmt(fn)
        t = b.term(ret.value, ret)
        inst = f"{fam.ci.qualname}.draw_sample"
        site = fn.where(ret)
        from .distfam import rvs_call, SLOT_TABLE as _ST
        t, problem = rvs_call(t, _ST.get(fam.name, (None,))[0] if not fam.generic else None)
        if problem:
            rep.fail("C07.family", inst + ":slots", site, problem)
            continue
        if t[0] != "call":
            rep.fail("C07.family", inst, site, f"does not return an rvs call: {show(t)[:100]}")
            continue
        kw = dict(t[3])
        if fam.generic:
            slots = ("call", ("attr", SELF, "_get_scipy_parameters"), (("star", P("args")),), (("**", P("kwargs")),))
            S_ok = t[2] == (("star", slots),)
            want_size = ("call", ("attr", SELF, "_get_rvs_size"), (P("n"), slots), ())
        else:
            S = fam.slots()
            S_ok = tuple(t[2]) == tuple(S)
            want_size = ("call", ("attr", SELF, "_get_rvs_size"), (P("n"), ("tuple", tuple(S))), ())
        rep.check(S_ok, "C07.family", inst + ":slots", site, "rvs(*slots) with the cdf's slot tuple",
                  f"rvs must receive exactly the slot tuple of _get_scipy_parameters; got {[show(a)[:40] for a in t[2]]}")
        rep.check(kw.get("size") == want_size, "C07.family", inst + ":size", site, "size=_get_rvs_size(n, slots)",
                  f"size must be self._get_rvs_size(n, slots) so that vector parameters give one draw per parameter value; found {show(kw.get('size', NONE))[:120]}")
        rep.check(kw.get("random_state") == P("random_state"), "C07.family", inst + ":random_state", site, "random_state=random_state",
                  f"rvs must receive the caller's random_state, found {show(kw.get('random_state', NONE))[:60]}")


def size(prog, rep):
    q = f"{DIST}.Distribution._get_rvs_size"
    fn = prog.func(q)
    rep.analysed(fn)
    b = builder(prog, fn)
    pcs = path_conditions(prog, fn, b)
    rets = [s for s in cfg_of(fn).all_stmts() if isinstance(s, ast.Return)]
    # every returned alternative (several returns, or one conditional expression) with the literals it is returned under
    results = []
    for r in rets:
        for lits, v in guarded_alts(b.term(r.value, r)):
            results.append((r, tuple(pcs.of(r)) + tuple(lits), v))
    vec = [r for r, _l, v in results if v[0] == "tuple"]
    sca = [r for r, _l, v in results if v == P("n")]
    okv = False
    if len(vec) == 1:
        t = [v for _r, _l, v in results if v[0] == "tuple"][0]
        if len(t[1]) == 2 and t[1][0] == P("n"):
            lens = [a for a in alts(t[1][1]) if a != ("const", 0)]
            okv = bool(lens) and all(a[0] == "call" and a[1] == G("len") and a[2] and a[2][0][0] == "sub" and a[2][0][1] == P("pars") for a in lens)
    rep.check(okv, "C07.size", f"{q}:vector", fn.where(vec[0]) if vec else fn.where(), "(n, len(par)) when a parameter is iterable",
              "with vector-valued parameters the rvs size must be (n, len(parameter vector))")
    flags = [l for _r, l, _v in results]
    complementary = len(results) == 2 and len(flags[0]) == 1 and len(flags[1]) == 1 and neg_test(flags[0][0]) == flags[1][0]
    rep.check(len(sca) == 1 and len(results) == 2 and complementary, "C07.size", f"{q}:scalar", fn.where(sca[0]) if sca else fn.where(), "n otherwise",
              "with scalar parameters the rvs size must be n")


def noseed(prog, rep):
    hits = []
    n_calls = 0
    for q, fn in sorted(prog.functions.items()):
        if fn.parent is not None and not isinstance(fn.node, ast.Lambda):
            pass
        b = builder(prog, fn, inline=False)
        for st in cfg_of(fn).all_stmts():
            exprs = [st.test] if isinstance(st, (ast.If, ast.While)) else [st.iter] if isinstance(st, ast.For) else \
                [st] if isinstance(st, (ast.Assign, ast.Expr, ast.AugAssign, ast.Return)) else []
            for e in exprs:
                for c in ast.walk(e):
                    if not isinstance(c, ast.Call):
                        continue
                    n_calls += 1
                    ft = b.term(c.func, st)
                    if ft[0] != "global" or not ft[1].startswith("numpy.random."):
                        continue
                    name = ft[1][len("numpy.random."):]
                    if name in ("default_rng", "RandomState", "Generator", "SeedSequence", "PCG64", "MT19937"):
                        args = [b.term(a, st) for a in c.args] + [b.term(k.value, st) for k in c.keywords]
                        if any(a[0] == "const" and a[1] is not None for a in args):
                            hits.append((q, c.lineno, f"generator built from the literal seed {[show(a) for a in args]}"))
                    elif name in LEGACY:
                        hits.append((q, c.lineno, f"legacy global-state call numpy.random.{name}"))
    # a generator created in a DEFAULT ARGUMENT is created once, when the function is defined: every call without the argument continues one
    # shared stream, so the second computation of the same thing differs from the first (and nothing the caller passes controls it)
    shared = []
    for q, fn in sorted(prog.functions.items()):
        a_ = getattr(fn.node, "args", None)
        if a_ is None:
            continue
        for dflt in list(a_.defaults) + [d_ for d_ in a_.kw_defaults if d_ is not None]:
            for c in ast.walk(dflt):
                if isinstance(c, ast.Call):
                    txt = ast.unparse(c.func)
                    if txt.split(".")[-1] in ("default_rng", "RandomState", "Generator", "SeedSequence", "PCG64", "MT19937"):
                        shared.append((q, dflt.lineno, ast.unparse(c)[:60]))
    for q, ln, what in shared:
        rep.fail("C07.noseed", f"{q}:shared-default", f"{prog.functions[q].file}:{ln}",
                 f"the default argument {what} is evaluated once at definition time: all calls share one generator, the same computation repeated in one process gives "
                 "different numbers (two IFORM contours of the same 3-variable model differ)")
    allowed = 0
    for q, ln, what in hits:
        fnq = q
        if fnq in SEED_ALLOW:
            allowed += 1
            rep.ok("C07.noseed", f"{fnq}:allowed", f"{prog.functions[q].file}:{ln}", f"{what} - allowed: {SEED_ALLOW[fnq]}")
        else:
            rep.fail("C07.noseed", f"{fnq}:seed", f"{prog.functions[q].file}:{ln}",
                     f"{what}: sampling on this path is not controlled by the caller's random_state / all 'random' results repeat")
    if allowed == 0 and not shared:
        rep.error("C07.noseed positive control (NSphere literal seed) not matched: the seed detector is blind")
    rep.ok("C07.noseed", "package", "virocon/*.py", f"{n_calls} call sites scanned, {len(hits) - allowed} unseeded/fixed-seed uses outside the allow-list")
