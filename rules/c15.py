"""C15 - HDC coordinates are exactly the boundary cells of the enclosed region (wiring / contract lint)."""
import ast

from vstat.loader import AnalysisError
from vstat.terms import top_alts, IT, CMP, ordered, builder, show, SELF, NONE, G, alts, walk, mentions, phi
from vstat.guards import path_conditions
from vstat.cfg import cfg_of
from vstat.sigs import bind
from vstat import algebra

HDC = "virocon.contours.HighestDensityContour"
P = lambda n: ("param", n)
EXPL = ("C15.struct: the same full 3^n structuring element np.ones((3,)*n_dim) is passed to scipy.ndimage.binary_erosion and label; boundary = region - "
        "erosion(region) of the same region with the default border value (cells on the grid edge are boundary); C15.coords: for every label "
        "1..n_modes the coordinate of dimension d is cell_center_coordinates[d][index_d] with d from the enumeration of the nonzero tuple; "
        "C15.shape: one component -> one (N, n_dim) array (2-D through the line sorter with search_for_optimal_start, transposed), several -> list; "
        "C15.perm: the sorter returns x[order], y[order] where order must be a permutation of all points - a single-source "
        "networkx dfs_preorder_nodes yields only the nodes reachable from the source, so it must be completed over the remaining components or "
        "guarded by a length check.")
ASSUME = ["which cells are selected is C02; geometric quality of the ordering is not decided",
          "scipy.ndimage / networkx documented semantics (dfs_preorder_nodes(G, source) visits the component of source only)"]


def run(prog, rep):
    rep.explanation = EXPL + ' C15.graph: the traversal of the line sorter runs on the connectivity graph of a neighbour search over all points, from which no edge is removed in place.'
    rep.assumptions = ASSUME
    rep.part(compute, prog, rep)
    rep.part(sorter, prog, rep)
    rep.expect_min("C15.struct", 3)
    rep.expect_min("C15.coords", 2)
    rep.expect_min("C15.shape", 2)
    rep.expect_min("C15.perm", 2)
    rep.expect_min("C15.graph", 1)
    from .purity import row as _stateless_row
    rep.part(_stateless_row, prog, rep, "C15", 3)

def compute(prog, rep):
    q = f"{HDC}._compute"
    fn = prog.func(q)
    rep.analysed(fn)
    b = builder(prog, fn, inline=False)
    pcs = path_conditions(prog, fn, b)
    cfg = cfg_of(fn)
    nd = ("attr", ("attr", SELF, "model"), "n_dim")
    er = lab = None
    for st in cfg.all_stmts():
        if isinstance(st, ast.Assign):
            for n in ast.walk(st.value):
                if isinstance(n, ast.Call):
                    t = b.term(n, st)
                    if t[0] == "call" and t[1] == G("scipy.ndimage.binary_erosion"):
                        er = (st, t, b.term(st.value, st))
                    if t[0] == "call" and t[1] == G("scipy.ndimage.label"):
                        lab = (st, t)
    if er is None or lab is None:
        raise AnalysisError(f"{q}: binary_erosion / label call not found")
    be, bl = bind(er[1]), bind(lab[1])
    full = [("call", G("numpy.ones"), (("call", G("tuple"), (("bin", "*", ("list", (("const", 3),)), nd),), ()),), (("dtype", G("bool")),)),
            ("call", G("numpy.ones"), (("bin", "*", ("tuple", (("const", 3),)), nd),), (("dtype", G("bool")),)),
            ("call", G("numpy.ones"), (("bin", "*", ("tuple", (("const", 3),)), nd),), ()),
            ("call", G("numpy.ones"), (("call", G("tuple"), (("bin", "*", ("list", (("const", 3),)), nd),), ()),), ())]
    full.append(("call", G("scipy.ndimage.generate_binary_structure"), (nd, nd), ()))
    s_e, s_l = (be or {}).get("structure"), (bl or {}).get("structure")
    rep.check(s_e is not None and s_e == s_l, "C15.struct", f"{q}:same-structure", fn.where(er[0]), "erosion and labelling use the same structuring element",
              f"binary_erosion and label must use the SAME structuring element (neighbourhood): erosion {show(s_e)[:80] if s_e else None} vs label {show(s_l)[:80] if s_l else None}")
    rep.check(s_e in full, "C15.struct", f"{q}:full-3n", fn.where(er[0]), "structure = np.ones((3,)*n_dim)",
              f"a boundary cell has one of its 3^n - 1 neighbours outside: the structuring element must be the full np.ones((3,)*n_dim); found {show(s_e)[:120] if s_e else None}")
    full_t = er[2]
    region = be.get("input") if be else None
    okb = full_t[0] == "bin" and full_t[1] == "-" and full_t[2] == region and full_t[3] == er[1] and set(be) <= {"input", "structure"}
    rep.check(okb, "C15.struct", f"{q}:boundary", fn.where(er[0]), "boundary = region - binary_erosion(region) (default border)",
              f"the boundary must be region minus the erosion of the SAME region with scipy's default border value; found {show(full_t)[:160]}")
    # 'one coordinate set per region': the connected components are those of the REGION. The boundary of one connected region with a
    # hole (a ring: direction variable concentrated for medium values of the first variable) has one component per boundary loop.
    rep.check(region is not None and bl.get("input") == region, "C15.struct", f"{q}:regions-labelled", fn.where(lab[0]),
              "the connected components are those of the region (label(region)), restricted to the boundary cells afterwards",
              "ndi.label is applied to the boundary mask: x1 ~ Normal(5, 2), x2 | x1 ~ VonMises(mu=0, kappa=0.05 + 30 exp(-(x1-5)^2/2)), alpha=0.01, limits [(-3, 13), (0, 2 pi)], "
              "deltas [0.1, 0.05] encloses ONE connected ring-shaped region (734 boundary cells) but .coordinates came back as a list of two sets (404 outer + 330 inner "
              f"loop) instead of one (N, 2) array; label the region and mask the labels with the boundary; labelled: {show(bl.get('input'))[:100] if bl else None}")
    # region is the selection result (or the all-ones fallback)
    # ---- coordinates
    lab0 = IT(lab[1], 0)
    masks = [full_t, ("not", CMP("==", full_t, ("const", 0))), CMP(">", full_t, ("const", 0)), ("call", ("attr", full_t, "astype"), (G("bool"),), ())]
    labeleds = [lab0] if bl.get("input") == full_t else []
    for m_ in masks:
        labeleds += [("bin", "*", lab0, m_), ("bin", "*", m_, lab0), ("call", G("numpy.where"), (m_, lab0, ("const", 0)), ())]
    nmodes = IT(lab[1], 1)
    # the list of per-region coordinate sets as a term: a comprehension over the labels, or a list filled by one append in a
    # loop over the labels (the same term); each element the per-dimension lookup, again comprehension or append loop
    rng_labels = ("call", G("range"), (("const", 1), ("bin", "+", nmodes, ("const", 1))), ())
    outers = []
    for st_, _nm, tv in b.list_values():
        for _l, a in top_alts(tv):
            if a[0] == "comp" and a[1] == "list" and a[4] == rng_labels and a not in outers:
                outers.append(a)
    rep.check(len(outers) == 1 and not outers[0][5], "C15.coords", f"{q}:labels", fn.where(lab[0]), "one coordinate set for every i in range(1, n_modes + 1)",
              "every component label 1..n_modes must be visited (range(1, n_modes + 1)), each giving one coordinate set")
    lab_loop = outers
    okc = False
    why = "no per-dimension coordinate lookup found"
    if len(outers) == 1:
        outer = outers[0]
        i = ("idx", outer[3], "range", (("const", 1), ("bin", "+", nmodes, ("const", 1))))
        nzs = [("call", G("numpy.nonzero"), (CMP("==", l_, i),), ()) for l_ in labeleds]
        nzs += [("call", G("numpy.nonzero"), (("bin", "&", CMP("==", lab0, i), m_),), ()) for m_ in masks[1:]]
        nzs += [("call", G("numpy.nonzero"), (("bin", "&", m_, CMP("==", lab0, i)),), ()) for m_ in masks[1:]]
        seen_nz = [w_ for s_ in cfg.all_stmts() if isinstance(s_, (ast.Assign, ast.Expr)) for n_ in ast.walk(s_) if isinstance(n_, ast.Call)
                   for w_ in [b.term(n_, s_)] if w_[0] == "call" and w_[1] == G("numpy.nonzero")]
        nz = next((z_ for z_ in nzs if z_ in seen_nz), nzs[0] if nzs else None)
        CCs = [s for s in cfg.all_stmts() if isinstance(s, ast.Assign) and isinstance(s.targets[0], ast.Attribute) and s.targets[0].attr == "cell_center_coordinates"]
        CC = b.term(CCs[0].value, CCs[0]) if len(CCs) == 1 else None

        def dim_index(it, lid):
            """index term of a per-dimension iteration: enumerate(nonzero), zip(grids, nonzero), range(n_dim / len(...))"""
            if it == ("call", G("enumerate"), (nz,), ()):
                return ("idx", lid, "enumerate")
            if it[0] == "call" and it[1] == G("zip") and len(it[2]) == 2 and not it[3] and CC is not None and set(it[2]) == {CC, nz}:
                return ("idx", lid, "zip")
            if it[0] == "call" and it[1] == G("range") and not it[3] and it[2] in ((nd,), (("call", G("len"), (nz,), ()),), (("call", G("len"), (CC,), ()),)):
                return ("idx", lid, "range", it[2])
            return None

        inner = outer[2]
        if inner[0] == "comp" and inner[1] == "list" and not inner[5]:
            d = dim_index(inner[4], inner[3])
            a = inner[2]
            if d is None:
                why = f"dimensions must be enumerated from np.nonzero(labeled_array == i) of the region's own label i; found {show(inner[4])[:140]}"
            else:
                okc = a[0] == "sub" and a[2] == ("sub", nz, d) and a[1][0] == "sub" and a[1][2] == d
                why = (f"the coordinate of dimension d must be cell_center_coordinates[d][indices_d] with d and indices_d from the SAME enumeration of np.nonzero(labeled == i); "
                       f"found {show(a)[:160]}")
                if okc:
                    okc = CC is not None and a[1][1] == CC
                    why = "the coordinates must be read from the same cell-centre grids the density was evaluated on (the list stored as self.cell_center_coordinates)"
        else:
            why = f"each region's coordinate set must be the per-dimension lookup list; found {show(inner)[:160]}"
    rep.check(okc, "C15.coords", f"{q}:lookup", fn.where(), "coords_d = cell_center_coordinates[d][nonzero(labeled == i)[d]]", why)
    # ---- shape
    from vstat.terms import guarded_alts
    bg = builder(prog, fn, inline=False, guarded=True)
    cs = [s for s in cfg.all_stmts() if isinstance(s, ast.Assign) and isinstance(s.targets[0], ast.Attribute) and s.targets[0].attr == "coordinates"]
    two = CMP("==", nd, ("const", 2))
    # the list of per-region coordinate sets: an (unmodelled) empty list, or - a list filled by one append in the label loop
    # reads as a comprehension - the comprehension over the label loop; compared structurally, because guarded and plain
    # builders spell the terms nested inside it differently
    lab_lid = lab_loop[0][3] if lab_loop else None

    def is_lst(x):
        return x == ("list", ()) or (x[0] == "comp" and x[1] == "list" and x[3] == lab_lid and not x[5])

    def one_region(l):
        return l[0] == "cmp" and l[1] == "==" and l[3] == ("const", 1) and l[2][0] == "call" and l[2][1] == G("len") and len(l[2][2]) == 1 and is_lst(l[2][2][0])

    def is_first(x):
        return x[0] == "sub" and x[2] == ("const", 0) and is_lst(x[1])

    kinds = {}
    from vstat.guards import PathConditions
    pcs_g = PathConditions(fn, bg)
    for st in cs:
        base_pc = set(pcs_g.of(st))
        for lits, t in guarded_alts(bg.term(st.value, st)):
            pc = base_pc | set(lits)
            # polarity of "exactly one component" on this alternative; flags set from the same test count as the test itself
            pol = set()
            for l in pc:
                if one_region(l):
                    pol.add(True)
                elif l[0] == "not" and one_region(l[1]):
                    pol.add(False)
                else:
                    f = _flag_of(l, one_region, bg, fn)
                    if f is not None:
                        pol.add(f)
            if pol == {True, False}:
                continue  # the guards of this alternative contradict each other
            is_one, not_one = True in pol, False in pol
            if not_one:
                kinds.setdefault("multi", []).append((st, is_lst(t), t))
            elif two in pc:
                inner = t[1] if t[0] == "attr" and t[2] == "T" else t
                ok = t[0] == "attr" and t[2] == "T" and inner[0] == "call" and inner[1] == G("numpy.array") and inner[2] and inner[2][0][0] == "call" \
                    and inner[2][0][1] == ("func", "virocon.utils.sort_points_to_form_continuous_line") and dict(inner[2][0][3]).get("search_for_optimal_start") == ("const", True) \
                    and len(inner[2][0][2]) == 1 and inner[2][0][2][0][0] == "star" and is_first(inner[2][0][2][0][1])
                kinds.setdefault("2d", []).append((st, ok and is_one, t))
            elif ("not", two) in pc:
                ok = t[0] == "attr" and t[2] == "T" and t[1][0] == "call" and t[1][1] == G("numpy.array") and len(t[1][2]) == 1 and not t[1][3] and is_first(t[1][2][0])
                kinds.setdefault("nd", []).append((st, ok and is_one, t))
            else:
                kinds.setdefault("?", []).append((st, False, t))
    ok = set(kinds) == {"2d", "nd", "multi"} and all(v[1] for vs in kinds.values() for v in vs)
    rep.check(ok, "C15.shape", f"{q}:single", fn.where(), "single component: (N, n_dim) array; 2-D through the line sorter (optimal start), transposed; several: the list",
              f"one component must be returned as np.array(...).T - in 2-D np.array(sort_points_to_form_continuous_line(*coordinates[0], search_for_optimal_start=True)).T - and several components as the list of coordinate sets; found {[(k, show(v[2])[:90]) for k, vs in kinds.items() for v in vs if not v[1] or k == '?']}")
    rep.check("multi" in kinds and ("2d" in kinds or "nd" in kinds), "C15.shape", f"{q}:one-vs-many", fn.where(), "len(coordinates) == 1 selects the single-array form",
              "a single component is recognised by len(coordinates) == 1; several components stay a list with one coordinate set per region")


def _flag_of(lit, test, bg, fn):
    """A boolean flag literal whose guarded definitions are const True under `test` and const False otherwise -> polarity of test."""
    neg = lit[0] == "not"
    core = lit[1] if neg else lit
    if core[0] == "gphi":
        m = {k: v for k, v in core[1]}
        if len(m) == 2 and set(m.values()) == {("const", True), ("const", False)}:
            for k, v in m.items():
                if any(test(x) for x in k):
                    val = v[1]
                    return (not val) if neg else val
                if any(x[0] == "not" and test(x[1]) for x in k):
                    val = not v[1]
                    return (not val) if neg else val
    return None


def _bases(ax):
    """the parameter itself or a value-preserving array conversion of it"""
    return [P(ax)] + [("call", G(f), (P(ax),), ()) for f in ("numpy.asarray", "numpy.array", "numpy.asanyarray", "numpy.asarray_chkfinite")]


def sorter(prog, rep):
    q = "virocon.utils.sort_points_to_form_continuous_line"
    fn = prog.func(q)
    rep.analysed(fn)
    b = builder(prog, fn, inline=False)
    cfg = cfg_of(fn)
    rets = [s for s in cfg.all_stmts() if isinstance(s, ast.Return)]
    t = b.term(rets[-1].value, rets[-1])
    ok = False
    orders = set()
    raw = []
    if t[0] == "tuple" and len(t[1]) == 2:
        ok = True
        for ax, comp in zip(("x", "y"), t[1]):
            for a in alts(comp):
                if a[0] == "sub" and a[1] in _bases(ax):
                    orders.add(a[2])
                    if a[1] == P(ax):
                        raw.append(ax)
                else:
                    ok = False
        xs = {a[2] for a in alts(t[1][0]) if a[0] == "sub"}
        ys = {a[2] for a in alts(t[1][1]) if a[0] == "sub"}
        ok = ok and xs == ys
    rep.check(ok, "C15.perm", f"{q}:same-order", fn.where(rets[-1]), "returns x[order], y[order] with the same order",
              f"x and y must be reordered with the SAME index list; found {show(t)[:200]}")
    # x and y are documented as array_like; they are indexed with a LIST of node numbers, which only an ndarray takes as positions
    rep.check(ok and not raw, "C15.perm", f"{q}:array-like", fn.where(rets[-1]), "x and y are converted to arrays before they are indexed with the order",
              f"{sorted(set(raw))} indexed with the list of node numbers as passed: a Python list or tuple raises TypeError ('list indices must be integers or slices, not list'), "
              "a pandas Series whose index is not 0..N-1 reads the numbers as LABELS (KeyError, or silently other points); the points handed to the neighbour search are "
              "converted by np.c_, the returned ones must be too: x = np.asarray(x)")
    # the neighbour graph that is traversed: built from ALL points, and no edge is taken out of it afterwards
    graphs = [s_ for o in orders for s_ in walk(o) if s_[0] == "call" and s_[1] == G("networkx.dfs_preorder_nodes") and s_[2]]
    kg = set()
    for g_ in graphs:
        for s_ in walk(g_[2][0]):
            if s_[0] == "call" and s_[1][0] == "attr" and s_[1][2] == "kneighbors_graph":
                kg.add(s_)
    pts_ok = lambda p_: p_[0] == "cols" and len(p_[1]) == 2 and p_[1][0] in _bases("x") and p_[1][1] in _bases("y")
    okg = len(kg) == 1
    whyg = f"expected one kneighbors_graph() behind the traversal, found {len(kg)}"
    if okg:
        k0 = next(iter(kg))
        fitted = k0[1][1]
        okg = fitted[0] == "call" and fitted[1][0] == "attr" and fitted[1][2] == "fit" and len(fitted[2]) == 1 and pts_ok(fitted[2][0]) \
            and dict(k0[3]).get("mode", ("const", "connectivity")) == ("const", "connectivity") and not k0[2]
        whyg = f"the traversal graph must be the connectivity graph of a neighbour search fitted to ALL points np.c_[x, y]; found {show(k0)[:160]}"
    holders = set()
    for st in cfg.all_stmts():
        if isinstance(st, ast.Assign) and isinstance(st.targets[0], ast.Name) and isinstance(st.value, ast.Call):
            tv = b.term(st.value, st)
            if tv in kg or (tv[0] == "call" and tv[1] == G("networkx.from_scipy_sparse_array")):
                holders.add(st.targets[0].id)
    cut = []
    for st in cfg.all_stmts():
        tg = None
        if isinstance(st, (ast.Assign, ast.AugAssign)):
            tg = st.targets[0] if isinstance(st, ast.Assign) else st.target
            root = tg
            while isinstance(root, (ast.Subscript, ast.Attribute)):
                root = root.value
            if isinstance(tg, (ast.Subscript, ast.Attribute)) and isinstance(root, ast.Name) and root.id in holders:
                cut.append(st)
        elif isinstance(st, ast.Expr) and isinstance(st.value, ast.Call) and isinstance(st.value.func, ast.Attribute):
            root = st.value.func.value
            while isinstance(root, (ast.Subscript, ast.Attribute)):
                root = root.value
            if isinstance(root, ast.Name) and root.id in holders and st.value.func.attr in (
                    "eliminate_zeros", "prune", "setdiag", "resize", "remove_edge", "remove_edges_from", "remove_node", "remove_nodes_from", "clear", "clear_edges"):
                cut.append(st)
    rep.check(okg and not cut, "C15.graph", f"{q}:neighbour-graph", fn.where(cut[0]) if cut else fn.where(), "the traversal runs on the unmodified neighbour graph of all points",
              whyg if not okg or not cut else f"edges are taken out of the neighbour graph before the traversal ({ast.unparse(cut[0])[:80]}): the points behind a removed edge are never visited, so boundary cells are dropped")
    # every index list that comes from a single-source DFS preorder must be completed or guarded
    bad = []
    n_dfs = 0
    for o in orders:
        for s in walk(o):
            if s[0] == "call" and s[1] == G("networkx.dfs_preorder_nodes") and len(s[2]) >= 2:
                n_dfs += 1
    # guard / completion evidence in the function body
    src = fn.node
    has_len_guard = False
    has_completion = False
    for n in ast.walk(src):
        if isinstance(n, ast.Compare):
            txt = ast.unparse(n)
            if "len(" in txt and ("order" in txt or "path" in txt) and ("points" in txt or "len(x)" in txt) and isinstance(_parent_if_or_assert(src, n), (ast.If, ast.Assert, ast.While)):
                has_len_guard = True
        if isinstance(n, ast.Call):
            f = ast.unparse(n.func)
            if f.endswith("connected_components") or f.endswith(".extend") and ("order" in f or "path" in f):
                has_completion = True
            if f.endswith("dfs_preorder_nodes") and len(n.args) + len(n.keywords) < 2:
                has_completion = True  # no source: networkx visits all components
    rep.check(n_dfs == 0 or has_len_guard or has_completion, "C15.perm", f"{q}:order-is-permutation", fn.where(),
              "the returned order covers every point",
              f"the returned order is built from nx.dfs_preorder_nodes(T, source) ({n_dfs} use(s)), which yields only the nodes reachable from source in the "
              "2-nearest-neighbour graph; nothing completes the order over the remaining components or checks len(order) == len(points), so for irregularly "
              "spaced points (anisotropic HDC grids) most boundary cells are silently dropped")


def _parent_if_or_assert(root, node):
    for p in ast.walk(root):
        if isinstance(p, (ast.If, ast.While)) and any(n is node for n in ast.walk(p.test)):
            return p
        if isinstance(p, ast.Assert) and any(n is node for n in ast.walk(p.test)):
            return p
    return None
