"""A None default must not reach a dereference.

``def f(..., method=None)`` documents "defaults to ..."; if f hands the parameter on, untested and unchanged, to a callee whose
own parameter is dereferenced unconditionally (``method.lower()``, indexing, arithmetic, iteration), the documented default call
of f crashes with AttributeError / TypeError.  (ConditionalDistribution.fit(data, values, boundaries) did: method=None was passed
positionally to Distribution.fit(data, method="mle"), overriding the callee's default, and ``method.lower()`` raised.)

The scan is syntactic and deliberately narrow, so that every report is a crash on the default path:
  * only parameters whose default is the constant None,
  * in the caller the parameter is never assigned and the call is not under a test that mentions the parameter,
  * the argument is the bare name,
  * the callee is resolved by name among the package's functions and methods (every candidate must dereference),
  * in the callee the matching parameter is dereferenced at a statement that is not under a test mentioning it, before any
    assignment to it and before any ``if <test on p>: return / raise`` guard.
Direct dereferences of an own None-default parameter are reported the same way.
"""
import ast


def _params(fn):
    a = fn.args
    names = [x.arg for x in a.posonlyargs + a.args]
    defaults = [None] * (len(names) - len(a.defaults)) + list(a.defaults)
    d = {n: dv for n, dv in zip(names, defaults)}
    for k, dv in zip(a.kwonlyargs, a.kw_defaults):
        d[k.arg] = dv
    return names, d


def none_defaults(fn):
    _names, d = _params(fn)
    return [n for n, dv in d.items() if isinstance(dv, ast.Constant) and dv.value is None]


def _mentions(node, p):
    return any(isinstance(x, ast.Name) and x.id == p for x in ast.walk(node))


class _Deref(ast.NodeVisitor):
    def __init__(self, p):
        self.p = p
        self.guard = 0
        self.dead = False      # p was (possibly) replaced or an early exit tested it: later uses are not the raw default
        self.hits = []

    def _live(self):
        return not self.guard and not self.dead

    def visit_FunctionDef(self, n):
        return  # nested definitions run later, under conditions of their own

    visit_Lambda = visit_FunctionDef

    def visit_If(self, n):
        m = _mentions(n.test, self.p)
        self.visit(n.test)
        if m:
            self.guard += 1
        for s in n.body + n.orelse:
            self.visit(s)
        if m:
            self.guard -= 1
            self.dead = True   # whatever follows a test of p may rely on it (assignment or early exit inside)

    def visit_While(self, n):
        self.visit_If(n)

    def visit_IfExp(self, n):
        m = _mentions(n.test, self.p)
        if m:
            self.guard += 1
        self.generic_visit(n)
        if m:
            self.guard -= 1

    def visit_BoolOp(self, n):
        m = _mentions(n.values[0], self.p)
        self.visit(n.values[0])
        if m:
            self.guard += 1
        for v in n.values[1:]:
            self.visit(v)
        if m:
            self.guard -= 1

    def visit_Try(self, n):
        # a dereference inside try may be the handled case
        self.guard += 1
        self.generic_visit(n)
        self.guard -= 1
        if _mentions(n, self.p):
            self.dead = True

    def visit_Assign(self, n):
        self.generic_visit(n)
        for t in n.targets:
            if any(isinstance(x, ast.Name) and x.id == self.p for x in ast.walk(t)):
                self.dead = True

    def visit_AugAssign(self, n):
        if isinstance(n.target, ast.Name) and n.target.id == self.p and self._live():
            self.hits.append(n.lineno)
        self.generic_visit(n)

    def _is_p(self, x):
        return isinstance(x, ast.Name) and x.id == self.p

    def visit_Attribute(self, n):
        if self._is_p(n.value) and self._live():
            self.hits.append(n.lineno)
        self.generic_visit(n)

    def visit_Subscript(self, n):
        if self._is_p(n.value) and self._live():
            self.hits.append(n.lineno)
        self.generic_visit(n)

    def visit_Call(self, n):
        if self._is_p(n.func) and self._live():
            self.hits.append(n.lineno)
        self.generic_visit(n)

    def visit_BinOp(self, n):
        if (self._is_p(n.left) or self._is_p(n.right)) and self._live():
            self.hits.append(n.lineno)
        self.generic_visit(n)

    def visit_UnaryOp(self, n):
        if self._is_p(n.operand) and not isinstance(n.op, ast.Not) and self._live():
            self.hits.append(n.lineno)
        self.generic_visit(n)

    def visit_For(self, n):
        if self._is_p(n.iter) and self._live():
            self.hits.append(n.lineno)
        self.generic_visit(n)


def derefs(fn, p):
    v = _Deref(p)
    for st in fn.body:
        v.visit(st)
    return v.hits


def _guarded_calls(fn, p):
    """[(call, guarded)] for every call in fn that passes the bare name p, guarded = under a test mentioning p or after p may have changed"""
    out = []

    class V(_Deref):
        def visit_Call(self, n):
            passes = [("pos", i) for i, a in enumerate(n.args) if self._is_p(a)] + [("kw", k.arg) for k in n.keywords if k.arg and self._is_p(k.value)]
            if passes:
                out.append((n, passes, not self._live()))
            _Deref.visit_Call(self, n)
    v = V(p)
    for st in fn.body:
        v.visit(st)
    return out


def scan(functions, resolve=None):
    """functions: [(qualname, class name or None, ast.FunctionDef)] -> (reports, pairs analysed)
    report = (kind, caller qualname, parameter, callee qualname or None, line of the call / dereference, lines in the callee)
    resolve(caller qualname, call node) -> qualname of the callee where the caller knows the receiver's class (else None: every
    function of the package with that name and a fitting signature is a candidate, and ALL of them must dereference)"""
    by_name = {}
    for q, c, fn in functions:
        by_name.setdefault(fn.name, []).append((q, c, fn))
    reports = []
    pairs = 0
    for q, c, fn in functions:
        for p in none_defaults(fn):
            pairs += 1
            own = derefs(fn, p)
            if own:
                reports.append(("direct", q, p, None, own[0], own))
                continue
            for call, passes, guarded in _guarded_calls(fn, p):
                if guarded:
                    continue
                cname = call.func.attr if isinstance(call.func, ast.Attribute) else (call.func.id if isinstance(call.func, ast.Name) else None)
                cands = by_name.get(cname, [])
                known = resolve(q, call) if resolve is not None else None
                if known is not None:
                    cands = [x for x in cands if x[0] == known]
                else:
                    # candidates whose signature can take the call at all
                    fit_ = []
                    for cq, cc, cfn in cands:
                        names, d_ = _params(cfn)
                        pos = [n for n in names if n != "self"] if cc else names
                        if cfn.args.vararg is None and len(call.args) > len(pos):
                            continue
                        if cfn.args.kwarg is None and any(k.arg and k.arg not in d_ for k in call.keywords):
                            continue
                        fit_.append((cq, cc, cfn))
                    cands = fit_
                if not cands:
                    continue
                pairs += 1
                verdicts = []
                for cq, cc, cfn in cands:
                    names, _d = _params(cfn)
                    pos = [n for n in names if n != "self"] if cc else names
                    for kind, k in passes:
                        target = (pos[k] if k < len(pos) else None) if kind == "pos" else (k if k in _d else None)
                        if target is None:
                            verdicts.append(None)
                            continue
                        h = derefs(cfn, target)
                        verdicts.append((cq, target, h) if h else None)
                if verdicts and all(v is not None for v in verdicts):
                    cq, target, h = verdicts[0]
                    reports.append(("forwarded", q, p, f"{cq}({target})", call.lineno, h))
    return reports, pairs


_POSITIVE = '''
class T:
    def run_fit(self, data, method="mle"):
        if method.lower() == "mle":
            return 1
class C:
    def fit(self, data, method=None, weights=None):
        d = T()
        d.run_fit(data, method)
    def ok(self, data, method=None):
        d = T()
        if method is None:
            d.run_fit(data)
        else:
            d.run_fit(data, method)
'''


def self_test():
    tree = ast.parse(_POSITIVE)
    fns = [(f"{c.name}.{m.name}", c.name, m) for c in tree.body if isinstance(c, ast.ClassDef) for m in c.body if isinstance(m, ast.FunctionDef)]
    reports, _ = scan(fns)
    got = {(r[0], r[1], r[2]) for r in reports}
    return got == {("forwarded", "C.fit", "method")}
