"""Truth tables over one symbolic string: the literals of a path condition are evaluated with Python's own semantics for
every candidate value of the string (==, !=, in / not in against constants and displays of constants, startswith / endswith,
lower / upper / strip).  None = the literal is not of that kind."""
from vstat.terms import G


def _value(t, sym, s):
    """Python value of term t when the symbol term `sym` is the string s; raises KeyError if not computable."""
    if t == sym:
        return s
    if t[0] == "const":
        return t[1]
    if t[0] in ("tuple", "list", "set"):
        vals = [_value(x, sym, s) for x in t[1]]
        return tuple(vals) if t[0] == "tuple" else vals if t[0] == "list" else set(vals)
    if t[0] == "call" and t[1][0] == "attr" and not t[3]:
        recv = _value(t[1][1], sym, s)
        args = [_value(a, sym, s) for a in t[2]]
        if isinstance(recv, str) and t[1][2] in ("lower", "upper", "strip", "startswith", "endswith", "casefold"):
            return getattr(recv, t[1][2])(*args)
    if t[0] == "sub" and t[2][0] == "slice":
        recv = _value(t[1], sym, s)
        lo, hi, st = [None if x == ("const", None) else _value(x, sym, s) for x in t[2][1:4]]
        return recv[lo:hi:st]
    raise KeyError(t)


def evaluate(lit, sym, s):
    try:
        if lit[0] == "not":
            v = evaluate(lit[1], sym, s)
            return None if v is None else not v
        if lit[0] in ("and", "or"):
            vs = [evaluate(x, sym, s) for x in lit[1]]
            if None in vs:
                return None
            return all(vs) if lit[0] == "and" else any(vs)
        if lit[0] == "cmp":
            a, b = _value(lit[2], sym, s), _value(lit[3], sym, s)
            if lit[1] == "==":
                return a == b
            if lit[1] == "in":
                return a in b
            if lit[1] == "is":
                return a is b
            return None
        return bool(_value(lit, sym, s))
    except (KeyError, TypeError, ValueError, IndexError):
        return None
