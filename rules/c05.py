"""C05 - cdf / icdf / pdf follow the documented formula and each other (wiring clauses)."""
import ast

from vstat.loader import AnalysisError
from vstat.terms import CMP, builder, show, SELF, NONE, G, alts, walk, mentions, phi, contains
from vstat.guards import path_conditions
from vstat.dataflow import rd_of
from vstat.cfg import cfg_of, EXIT
from vstat import algebra, scipyinfo
from .distfam import (families, Family, SLOT_TABLE, METHOD_MAP, P, A, expected_slot, strip_consts, DIST)

EXPL = ("PARAM/MAP/SIB rules over every Distribution subclass in virocon/distributions.py: "
        "C05.paramflow - every formal of _get_scipy_parameters reaches a returned slot, explicit value on the not-None "
        "branch and stored value on the None branch; C05.slots - slot tuple equals the documented parameterisation "
        "position by position against scipy's positional signature read from the scipy sources; C05.siblings - "
        "cdf/icdf/pdf/draw_sample call the same scipy object with cdf/ppf/pdf/rvs and the same slot tuple, formals "
        "agree with parameters keys and constructor; C05.support - EW pdf evaluates scipy only where x>0 on a fresh "
        "array; C05.pair - LogNormalNormFit rejects exactly one of its two parameters; C05.generic - ScipyDistribution "
        "override wiring.")

ASSUME = [
    "values of scipy.stats cdf/ppf/pdf (monotonicity, icdf(cdf(x))=x, pdf=cdf') are scipy's, for the slot mapping decided here",
    "array_like handling / broadcasting is numpy's",
    "the slot table in rules/distfam.py (derived from the class docstrings and scipy's documented densities) is the oracle",
]


def run(prog, rep):
    rep.explanation = EXPL
    rep.assumptions = ASSUME
    fams = families(prog, include_generic=True)
    for fam in fams:
        if fam.generic:
            rep.part(generic, prog, rep, fam)
            continue
        rep.part(paramflow, prog, rep, fam)
        rep.part(slots, prog, rep, fam)
        rep.part(siblings, prog, rep, fam)
    rep.part(support, prog, rep)
    rep.part(pair, prog, rep)
    rep.part(stable, prog, rep)
    rep.expect_min("C05.stable", 1)
    # "explicit None falls back to the stored value" - and ONLY None does: an optional value is never tested by truth (rules/falsy.py, package-wide)
    from .falsy import rows as _falsy_rows
    rep.part(_falsy_rows, prog, rep, "C05.optional")
    rep.expect_min("C05.optional", 1)
    rep.expect_min("C05.paramflow", 17)
    rep.expect_min("C05.slots", 20)
    rep.expect_min("C05.siblings", 70)
    rep.expect_min("C05.support", 3)
    rep.expect_min("C05.pair", 1)
    rep.expect_min("C05.generic", 5)
    from .purity import row as _stateless_row
    rep.part(_stateless_row, prog, rep, "C05", 10)
    # "Passing parameter values explicitly to a call gives exactly the result of an instance constructed with those values": the
    # constructor must store every value (plain or fixed) under the name the methods read - the constructor rows of C11, filed here too
    from vstat.report import Relabel
    from . import c11
    ct = Relabel(rep, "C05.ctor", lambda r, inst: r == "C11.ctor" or (r == "C11.generic" and "__init__" in inst))
    for fam in fams:
        rep.part(c11.generic if fam.generic else c11.ctor, prog, ct, fam)
    rep.expect_min("C05.ctor", 18)
    rep.explanation += (" C05.ctor: the constructor rows of C11 - every parameter attribute is the f_ value where one is given and the plain argument otherwise, "
                        "and a generic ScipyDistribution sets both the f_ attribute and the parameter.")

# ---------------------------------------------------------------- paramflow
def _none_links(pc):
    """Pairs (a, b) such that ``isnone(a) == isnone(b)`` is known on the path."""
    out = []
    for lit in pc:
        if lit[0] == "cmp" and lit[1] == "==" and lit[2][0] == "isnone" and lit[3][0] == "isnone":
            out.append((lit[2][1], lit[3][1]))
    return out


def _knows_none(pc, p, positive):
    want = ("isnone", p) if positive else ("not", ("isnone", p))
    if want in pc:
        return True
    for a, b in _none_links(pc):
        other = b if a == p else a if b == p else None
        if other is not None:
            w2 = ("isnone", other) if positive else ("not", ("isnone", other))
            if w2 in pc:
                return True
    return False


def paramflow(prog, rep, fam):
    fn = fam.m["_get_scipy_parameters"]
    rep.analysed(fn)
    b = fam.b(fn)
    pcs = path_conditions(prog, fn, b)
    rd = rd_of(fn)
    rets = fam.return_stmts(fn)
    ret = rets[-1]
    formals = [p for p in fn.positional_params if p != "self"]
    site = fn.where(ret)
    if not all(isinstance(r_.value, ast.Tuple) for r_ in rets) or len({len(r_.value.elts) for r_ in rets}) != 1:
        raise AnalysisError(f"{fn.qualname}: returns are not tuple displays of one length")
    # per returned slot: list of (alternative term, path condition of its defining statement)
    from vstat.guards import literals as _lits

    def split(t, pc, d):
        """A conditional expression is two guarded alternatives."""
        if t[0] == "ifexp" and pc is not None:
            return split(t[2], tuple(pc) + tuple(_lits(t[1], True)), d) + split(t[3], tuple(pc) + tuple(_lits(t[1], False)), d)
        return [(t, pc, d)]

    class _Synth:
        kind = "assign"
        stmt = ret

    slot_alts = [[] for _ in ret.value.elts]
    for r_ in rets:
        for k_, el in enumerate(r_.value.elts):
            al = slot_alts[k_]
            if isinstance(el, ast.Name):
                for d in rd.reaching(el.id, r_):
                    if d.kind == "param":
                        al.append((b.def_term(d), None if len(rets) == 1 else tuple(pcs.of(r_)), d) if len(rets) == 1 else (b.def_term(d), None, d))
                    else:
                        al += split(b.def_term(d), tuple(pcs.of(d.stmt)) + tuple(l for l in pcs.of(r_) if l not in pcs.of(d.stmt)), d)
            else:
                al += split(b.term(el, r_), pcs.of(r_), _Synth)
    for p in formals:
        inst = f"{fam.ci.qualname}._get_scipy_parameters:{p}"
        pt = P(p)
        stored = A(p)
        use_explicit = [(i, a) for i, al in enumerate(slot_alts) for a in al if mentions(a[0], pt)]
        use_stored = [(i, a) for i, al in enumerate(slot_alts) for a in al if mentions(a[0], stored)]
        if not use_explicit:
            rep.fail("C05.paramflow", inst, site,
                     f"formal '{p}' is tested/accepted but never reaches a returned scipy slot: an explicit {p}= is ignored "
                     f"(slots: {[show(phi(x[0] for x in al))[:60] for al in slot_alts]})")
            continue
        if not use_stored:
            rep.fail("C05.paramflow", inst, site,
                     f"stored value self.{p} never reaches a returned slot: the default for {p}=None is not the instance's parameter")
            continue
        si = {i for i, _ in use_explicit}
        ss = {i for i, _ in use_stored}
        # the slot that carries p alone (no other formal) - the pairing slot
        if not (si & ss):
            rep.fail("C05.paramflow", inst, site,
                     f"explicit {p} goes to slot(s) {sorted(si)} but stored self.{p} to slot(s) {sorted(ss)}")
            continue
        bad = []
        for i, (t, pc, d) in use_explicit:
            if d is not None and d.kind == "param":
                # the formal itself reaches the return: must be overwritten on the None branch
                others = [x for x in slot_alts[i] if x[2] is not None and x[2].kind != "param"]
                if not any(_knows_none(x[1], pt, True) for x in others if x[1] is not None):
                    bad.append(f"formal {p} reaches slot {i} unguarded and no assignment under '{p} is None' replaces it")
            elif pc is not None and not _knows_none(pc, pt, False):
                if _knows_none(pc, pt, True):
                    bad.append(f"slot {i} uses explicit {p} on the '{p} is None' branch")
                else:
                    bad.append(f"slot {i} uses explicit {p} without a '{p} is not None' guard")
        for i, (t, pc, d) in use_stored:
            if i not in si:
                continue
            if pc is None or not _knows_none(pc, pt, True):
                # stored value of p used outside the None branch of p
                if mentions(t, pt):
                    continue
                bad.append(f"slot {i} uses stored self.{p} outside the '{p} is None' branch")
        if bad:
            rep.fail("C05.paramflow", inst, site, "; ".join(bad))
        else:
            rep.ok("C05.paramflow", inst, site, f"explicit and stored {p} both reach slot(s) {sorted(si & ss)} under the right None-test")


# -------------------------------------------------------------------- slots
def slots(prog, rep, fam):
    if fam.name not in SLOT_TABLE:
        # a family the table does not know cannot be decided: that is an analysis gap, not a violation
        rep.error(f"C05.slots: distribution family {fam.ci.qualname} has no row in the frozen slot table (rules/distfam.py): its parameterisation cannot be decided")
        return
    dist, table = SLOT_TABLE[fam.name]
    sig = scipyinfo.positional_signature(dist)
    fn = fam.m["_get_scipy_parameters"]
    ret = fam.return_stmts(fn)[-1]
    site = fn.where(ret)
    got = fam.slots()
    if len(got) > len(sig):
        rep.fail("C05.slots", f"{fam.ci.qualname}:arity", site, f"{len(got)} slots returned but scipy.stats.{dist} takes {sig}")
        return
    for i, t in enumerate(got):
        sname = sig[i]
        inst = f"{fam.ci.qualname}:slot{i}={sname}"
        if sname not in table:
            rep.fail("C05.slots", inst, site, f"slot {i} feeds scipy '{sname}' which the documented parameterisation does not set")
            continue
        kind, par = table[sname]
        if kind == "const":
            ok = algebra.same(t, ("const", par))
            rep.check(ok, "C05.slots", inst, site, f"scipy {sname} = {par}", f"scipy {sname} must be the constant {par}, found {show(t)[:120]}")
            continue
        e_exp = expected_slot(kind, par, P)
        e_sto = expected_slot(kind, par, A)
        from vstat.terms import flat_alts
        al = flat_alts(t)
        hit_e = [a for a in al if algebra.same(a, e_exp)]
        hit_s = [a for a in al if algebra.same(a, e_sto)]
        extra = [a for a in al if a not in hit_e and a not in hit_s]
        if hit_e and hit_s and not extra:
            rep.ok("C05.slots", inst, site, f"scipy {sname} <- {kind}({par})")
        else:
            rep.fail("C05.slots", inst, site,
                     f"scipy '{sname}' of {dist} must be {show(e_exp)[:90]} (explicit) / {show(e_sto)[:90]} (stored); found {show(t)[:200]}")
    # every table row must be fed (trailing scipy defaults only where the table has no row)
    for j in range(len(got), len(sig)):
        if sig[j] in table:
            rep.fail("C05.slots", f"{fam.ci.qualname}:slot{j}={sig[j]}", site, f"scipy '{sig[j]}' is documented as {table[sig[j]]} but no slot is returned for it")


# ----------------------------------------------------------------- siblings
def siblings(prog, rep, fam):
    dist = SLOT_TABLE.get(fam.name, (None,))[0]
    S = fam.slots()
    pn = fam.param_names
    # constructor / parameters agreement
    init = fam.m["__init__"]
    ip = [p for p in init.positional_params if p != "self"]
    site = init.where()
    want = list(pn) + [f"f_{p}" for p in pn]
    rep.check(ip == want, "C05.siblings", f"{fam.ci.qualname}.__init__:formals", site,
              f"constructor formals {ip}", f"constructor formals {ip} differ from parameters keys + f_ names {want}")
    pv = fam.param_values or {}
    badv = [k for k in pn if pv.get(k) != A(k)]
    rep.check(not badv, "C05.siblings", f"{fam.ci.qualname}.parameters:values", fam.m["parameters"].where(), "parameters[name] is self.<name>",
              f"the parameters property must report each parameter under its own name: {[(k, show(pv.get(k, NONE))[:30]) for k in badv]}")
    first = {"cdf": None, "icdf": None, "pdf": None, "draw_sample": None}
    for mname, smeth in METHOD_MAP.items():
        fn = fam.m[mname]
        rep.analysed(fn)
        inst = f"{fam.ci.qualname}.{mname}"
        formals = [p for p in fn.positional_params if p != "self"]
        allf = formals + fn.kwonly_params
        site = fn.where()
        exp_formals = list(pn)
        got_formals = [p for p in allf[1:] if p != "random_state"]
        dflt = fn.defaults()
        not_none = [p for p in got_formals if not (p in dflt and isinstance(dflt[p], ast.Constant) and dflt[p].value is None)]
        rep.check(not not_none, "C05.siblings", inst + ":defaults", site, "every parameter formal defaults to None (= use the stored value)",
                  f"parameter formals {not_none} do not default to None: when they are not passed the instance's own value is silently replaced by the default")
        rep.check(got_formals == exp_formals, "C05.siblings", inst + ":formals", site,
                  f"formals {got_formals}", f"parameter formals {got_formals} differ from parameters keys {exp_formals} (order matters: conditionals pass by keyword, users by position)")
        from vstat.terms import flat_alts
        rets_ = fam.return_stmts(fn)
        ret = rets_[-1]
        cand = set()
        for r_ in rets_:
            cand |= {a for a in flat_alts(fam.b(fn).term(r_.value, r_)) if a[0] != "const"}
        t = phi(cand) if cand else ("const", None)
        site = fn.where(ret)
        if mname == "draw_sample":
            from .distfam import rvs_call
            t, problem = rvs_call(t, dist)
            if problem:
                rep.fail("C05.siblings", inst + ":slots", site, problem)
                continue
        if t[0] != "call":
            rep.fail("C05.siblings", inst + ":call", site, f"does not return a scipy call: {show(t)[:120]}")
            continue
        d, m = fam.scipy_name(t[1])
        rep.check(d == dist and m == smeth, "C05.siblings", inst + ":callee", site,
                  f"scipy.stats.{d}.{m}", f"must call scipy.stats.{dist}.{smeth}, calls {show(t[1])}")
        args = t[2]
        kw = dict(t[3])
        # scipy parameters given by keyword (loc=, scale=, c=, ...) are put at their position in scipy's own signature
        sig_ = scipyinfo.positional_signature(dist)
        lead = 0 if mname == "draw_sample" else 1
        if kw and not any(a[0] == "star" for a in args) and "**" not in kw:
            full = list(args)
            okpos = True
            for k_, sn in enumerate(sig_):
                posn = lead + k_
                if posn < len(full):
                    if sn in kw:
                        okpos = False
                    continue
                if sn in kw and posn == len(full):
                    full.append(kw.pop(sn))
                else:
                    break
            if okpos:
                args = tuple(full)
            else:
                kw = dict(t[3])
        if mname == "draw_sample":
            rep.check(tuple(args) == tuple(S), "C05.siblings", inst + ":slots", site, "rvs(*slots)",
                      f"rvs must receive exactly the slot tuple of _get_scipy_parameters({', '.join(pn)}); got {[show(a)[:40] for a in args]}")
            continue
        x = args[0] if args else None
        xf = P(formals[0]) if formals else None
        okx = x == xf or (mname == "pdf" and x is not None and _is_support_mask(x, xf))
        rep.check(okx, "C05.siblings", inst + ":data", site, "data argument is the first formal",
                  f"first scipy argument must be the method's own first formal, found {show(x)[:100] if x else None}")
        rep.check(tuple(args[1:]) == tuple(S) and not kw, "C05.siblings", inst + ":slots", site, f"{smeth}(x, *slots)",
                  f"scipy {smeth} must receive exactly the slot tuple of _get_scipy_parameters({', '.join(pn)}) after the data; got "
                  f"{[show(a)[:50] for a in args[1:]]} kw={list(kw)} expected {[show(a)[:50] for a in S]}")


def _as_array(xf):
    """the formal itself or a value-preserving array conversion of it"""
    return [xf] + [("call", G(f), (xf,), kw) for f in ("numpy.asarray", "numpy.array", "numpy.asanyarray")
                   for kw in ((), (("dtype", G("float")),), (("dtype", G("numpy.float64")),))]


def _is_support_mask(x, xf, need_array=False):
    """np.where(x > 0, x, nan), x possibly converted to an array first (need_array: the comparison must be on the converted x - a list
    cannot be compared with 0)"""
    if x[0] == "call" and x[1] == G("numpy.where") and len(x[2]) == 3:
        c, a, bb = x[2]
        for xa in _as_array(xf):
            if c == CMP(">", xa, ("const", 0)) and a in (xf, xa) and bb == G("numpy.nan"):
                return xa != xf if need_array else True
    return False


# ------------------------------------------------------------------ support
def support(prog, rep):
    fn = prog.func(f"{DIST}.ExponentiatedWeibullDistribution.pdf")
    rep.analysed(fn)
    b = builder(prog, fn)
    cfg = cfg_of(fn)
    from vstat.terms import flat_alts, guarded_alts
    rets_ = [s for s in cfg.all_stmts() if isinstance(s, ast.Return)]
    ret = rets_[-1]
    cand = set()
    for r_ in rets_:
        cand |= {a for a in flat_alts(b.term(r_.value, r_)) if a[0] != "const"}
    t = phi(cand) if cand else ("const", None)
    site = fn.where(ret)
    xf = P([p for p in fn.positional_params if p != "self"][0])
    ok = t[0] == "call" and t[2] and _is_support_mask(t[2][0], xf)
    rep.check(ok, "C05.support", "ExponentiatedWeibullDistribution.pdf:mask", site,
              "scipy pdf is evaluated on where(x > 0, x, nan)",
              f"scipy pdf must be evaluated only where x > 0 (strict) with NaN elsewhere; found {show(t)[:160]}")
    rep.check(ok and _is_support_mask(t[2][0], xf, need_array=True), "C05.support", "ExponentiatedWeibullDistribution.pdf:array-like", site,
              "x is converted to an array before it is compared with 0",
              "x > 0 on the argument as passed: a list or tuple (x : array_like; cdf and icdf of the same class and the pdf of every other family take one) raises "
              "TypeError \"'>' not supported between instances of 'list' and 'int'\" - also through model.marginal_pdf([1.0, 2.5], 0) of the OMAE2020 models")
    # NaN -> 0 on the result: a store _pdf[isnan(_pdf)] = 0 (array) and the scalar branch _pdf = 0 under isnan
    zeroed = 0
    for st in cfg.all_stmts():
        if isinstance(st, ast.Assign) and isinstance(st.value, ast.Constant) and st.value.value == 0:
            tg = st.targets[0]
            if isinstance(tg, ast.Subscript):
                base = b.term(tg.value, st)
                idx = b.term(tg.slice, st)
                if idx == ("call", G("numpy.isnan"), (base,), ()) and base == t:
                    zeroed += 1
            elif isinstance(tg, ast.Name):
                pc = path_conditions(prog, fn, b).of(st)
                if any(l[0] == "call" and l[1] == G("numpy.isnan") for l in pc):
                    zeroed += 1
    for r_ in rets_:
        # scalar case written as ``return 0 if np.isnan(d) else d``
        for lits, a in guarded_alts(b.term(r_.value, r_)):
            if a == ("const", 0) and any(l[0] == "call" and l[1] == G("numpy.isnan") and l[2] == (t,) for l in lits):
                zeroed += 1
    rep.check(zeroed >= 2, "C05.support", "ExponentiatedWeibullDistribution.pdf:zero", site,
              "NaN results are mapped to 0 for array and scalar input",
              f"outside the support the density must be 0: expected the NaN->0 mapping for both the array and the scalar case, found {zeroed}")


# ------------------------------------------------------------------- stable
def stable(prog, rep):
    """The parameter conversions of the families are closed formulas evaluated in floating point.  ln(1 + r) / ln(1 - r) with r
    computed from the parameters loses r once it is below 1.1e-16 (and half its digits at 1e-8): LogNormalNormFitDistribution(1e6, 0.01)
    got sigma = sqrt(ln(1 + 1e-16)) = 0 and every cdf / icdf / pdf nan.  np.log1p has no such barrier.  (A numerical lint over the
    family classes of distributions.py; the EW least-squares estimator has its own row in C13.formula.)"""
    n_log = 0
    for fam in families(prog, include_generic=True):
        for name, fn in sorted(fam.ci.methods.items()):
            if fam.name == "ExponentiatedWeibullDistribution" and name in ("_estimate_alpha_beta", "_wlsq_error"):
                continue
            b = builder(prog, fn, fam.ci, False)
            bad = []
            seen = False
            for st in cfg_of(fn).all_stmts():
                for n in ast.walk(st) if isinstance(st, (ast.Assign, ast.Return, ast.Expr, ast.AugAssign)) else []:
                    if not isinstance(n, ast.Call):
                        continue
                    t = b.term(n, st)
                    if t[0] != "call" or len(t[2]) != 1 or t[3]:
                        continue
                    if t[1] == G("numpy.log1p"):
                        seen = True
                    if t[1] in (G("numpy.log"), G("math.log")) and t[2][0][0] == "bin" and t[2][0][1] in ("+", "-"):
                        a_, b_ = t[2][0][2], t[2][0][3]
                        one, other = (a_, b_) if a_ == ("const", 1) else ((b_, a_) if b_ == ("const", 1) and t[2][0][1] == "+" else (None, None))
                        if one is not None and other[0] != "const":
                            seen = True
                            bad.append(st)
            if seen:
                n_log += 1
                rep.check(not bad, "C05.stable", f"{fn.qualname}:log1p", fn.where(bad[0]) if bad else fn.where(), "ln(1 + r) of a computed r is np.log1p(r)",
                          "np.log(1 + r) with r computed from the parameters: once r < 1.1e-16 the sum rounds to exactly 1 and the logarithm is 0 "
                          "(LogNormalNormFitDistribution(1e6, 0.01): sigma = 0, cdf / icdf / pdf nan; (1e4, 1e-2): sigma 4.4e-5 relative off); use np.log1p(r)")
    if n_log == 0:
        rep.fail("C05.stable", "distributions:log1p", "virocon/distributions.py", "no ln(1 + r) / log1p(r) conversion found in the family classes (anchor vanished)")


# --------------------------------------------------------------------- pair
def pair(prog, rep):
    fn = prog.func(f"{DIST}.LogNormalNormFitDistribution._get_scipy_parameters")
    b = builder(prog, fn)
    found = False
    for st in cfg_of(fn).all_stmts():
        if isinstance(st, ast.Raise):
            pc = path_conditions(prog, fn, b).of(st)
            want = ("not", CMP("==", ("isnone", P("mu_norm")), ("isnone", P("sigma_norm"))))
            want2 = want
            if want in pc or want2 in pc:
                found = True
    rep.check(found, "C05.pair", "LogNormalNormFitDistribution._get_scipy_parameters:both-or-none", fn.where(),
              "exactly-one-of(mu_norm, sigma_norm) raises",
              "passing exactly one of mu_norm/sigma_norm must raise (the two are converted jointly)")


# ------------------------------------------------------------------ generic
def generic(prog, rep, fam):
    """ScipyDistribution: positional and keyword overrides land in the slot of the named parameter."""
    ci = fam.ci
    fn = fam.m["_get_scipy_parameters"]
    rep.analysed(fn)
    b = fam.b(fn, inline=False)
    cfg = cfg_of(fn)
    site = fn.where()
    rets_all = [s_ for s_ in cfg.all_stmts() if isinstance(s_, ast.Return) and s_.value is not None]
    if not rets_all:
        raise AnalysisError(f"{fn.qualname}: no return with a value")
    ret = rets_all[-1]
    base = b.term(ret.value, ret)
    want_base = ("call", G("list"), (("call", ("attr", ("attr", SELF, "parameters"), "values"), (), ()),), ())
    # an early exit for "nothing to override" may hand back the stored values - but only where really NO override was passed:
    # no positional argument at all and no keyword at all (a test of truthiness - any(args) - is False for an override equal to 0)
    pcs_e = path_conditions(prog, fn, b)
    nothing = {("not", P("*args")), ("not", P("**kwargs")), ("not", P("args")), ("not", P("kwargs")),
               ("cmp", "==", ("call", G("len"), (P("args"),), ()), ("const", 0)), ("cmp", "==", ("call", G("len"), (P("kwargs"),), ()), ("const", 0))}
    for r_ in rets_all[:-1]:
        lits = list(pcs_e.of(r_))
        flat = [x_ for l_ in lits for x_ in (l_[1][1] if l_[0] == "not" and l_[1][0] == "or" else ())]   # not (a or b) = not a, not b
        lits2 = set(lits) | {("not", x_) for x_ in flat}
        okr = b.term(r_.value, r_) == want_base and any(l_ in lits2 for l_ in list(nothing)[0::2] + [("not", P("args"))]) and \
            {l_ for l_ in lits2 if not (l_[0] == "not" and l_[1][0] == "or")} <= nothing and len({l_ for l_ in lits2 if l_ in nothing}) >= 2
        rep.check(okr, "C05.generic", f"{ci.qualname}._get_scipy_parameters:early-exit", fn.where(r_), "the stored values are returned early only when no override was passed at all",
                  f"an early return of the stored parameter values under {[show(l_)[:60] for l_ in lits]}: an override that is falsy (a positional 0 for loc: d.cdf(x, None, 0)) "
                  "is skipped and the stored value used - the early exit must test for the absence of arguments (not args and not kwargs), not for their truth")
    rep.check(base == want_base, "C05.generic", f"{ci.qualname}._get_scipy_parameters:defaults", site,
              "defaults are list(self.parameters.values())", f"returned list must start from list(self.parameters.values()), found {show(base)[:120]}")
    pos_ok = kw_ok = kw_none_ok = False
    pcs = path_conditions(prog, fn, b)
    for st in cfg.all_stmts():
        if isinstance(st, ast.Assign) and isinstance(st.targets[0], ast.Subscript):
            tg = st.targets[0]
            tb = b.term(tg.value, st)
            idx = b.term(tg.slice, st)
            val = b.term(st.value, st)
            if tb != base:
                continue
            if idx[0] == "idx" and (idx[2] == "enumerate" or (idx[2] == "range" and idx[3] == (("call", G("len"), (P("args"),), ()),))):
                # args_with_default[i] = arg with (i, arg) from enumerate(args) / i from range(len(args)), under arg is not None
                exp_val = ("sub", P("args"), idx)
                if val == exp_val and ("not", ("isnone", val)) in pcs.of(st):
                    pos_ok = True
            else:
                # args_with_default[self._param_names.index(key)] = arg with (key, arg) from kwargs.items()
                for a in alts(idx):
                    if a[0] == "call" and a[1] == ("attr", ("attr", SELF, "_param_names"), "index") and len(a[2]) == 1:
                        k = a[2][0]
                        if k[0] == "key" and k[1] == P("kwargs") and val == ("sub", P("kwargs"), k):
                            kw_ok = True
                            kw_none_ok = ("not", ("isnone", val)) in pcs.of(st)
    rep.check(pos_ok, "C05.generic", f"{ci.qualname}._get_scipy_parameters:positional", site,
              "positional override i replaces slot i when not None", "positional override must replace slot i by args[i] under 'is not None'")
    rep.check(kw_ok, "C05.generic", f"{ci.qualname}._get_scipy_parameters:keyword", site,
              "keyword override replaces the slot self._param_names.index(key)", "keyword override must replace the slot at self._param_names.index(key) by its own value")
    rep.check(kw_none_ok, "C05.generic", f"{ci.qualname}._get_scipy_parameters:keyword-none", site,
              "a keyword given as None leaves the stored value in its slot (like a positional None)",
              "a parameter passed by keyword as None must mean 'use the stored value', as it does positionally and in every hand-written family; it is put into the slot instead")
    lf = prog.lookup_method(ci, "_list_scipy_parameters")
    okl = False
    if lf is not None:
        bl = builder(prog, lf, inline=False)
        rl = [s for s in cfg_of(lf).all_stmts() if isinstance(s, ast.Return)]
        augs = [s for s in cfg_of(lf).all_stmts() if isinstance(s, ast.AugAssign) and isinstance(s.op, ast.Add)]
        tail = ("list", (("const", "loc"), ("const", "scale")))
        okl = len(rl) == 1 and len(augs) == 1 and bl.term(augs[0].value, augs[0]) == tail \
            and isinstance(rl[0].value, ast.Name) and isinstance(augs[0].target, ast.Name) and augs[0].target.id == rl[0].value.id
        if not okl and rl:
            # ... or in one expression: return <shape names> + ["loc", "scale"] on every return
            from vstat.terms import top_alts
            okl = all(all(a[0] == "bin" and a[1] == "+" and a[3] == tail for _l, a in top_alts(bl.term(r_.value, r_))) for r_ in rl)
    rep.check(okl, "C05.generic", f"{ci.qualname}._list_scipy_parameters:order", lf.where() if lf else site, "parameter names = scipy shapes + ['loc', 'scale']",
              "the generic wrapper's parameter order must be scipy's positional order: shape names, then loc, then scale")
    for mname, smeth in METHOD_MAP.items():
        f = fam.m[mname]
        rep.analysed(f)
        r = fam.return_stmt(f)
        t = fam.b(f, inline=False).term(r.value, r)
        gsp = ("call", ("attr", SELF, "_get_scipy_parameters"), (("star", P("args")),), (("**", P("kwargs")),))
        ok = t[0] == "call" and t[1] == ("attr", ("attr", SELF, "scipy_dist"), smeth)
        first = [p for p in f.positional_params if p != "self"][0]
        if ok:
            if mname == "draw_sample":
                ok = t[2] == (("star", gsp),)
            else:
                ok = t[2] == (P(first), ("star", gsp))
        rep.check(ok, "C05.generic", f"{ci.qualname}.{mname}", f.where(r), f"self.scipy_dist.{smeth}(.., *slots)",
                  f"must call self.scipy_dist.{smeth} with the data and *self._get_scipy_parameters(*args, **kwargs); found {show(t)[:160]}")
