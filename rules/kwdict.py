"""A local dict that collects keyword arguments: its entries with the path condition under which each is set."""
import ast

from vstat.loader import AnalysisError
from vstat.terms import dict_entries
from vstat.cfg import cfg_of


class SharedDict(AnalysisError):
    """The keyword dict is not created in the call: it is an attribute, a global or an argument."""

    def __init__(self, msg, term, stmt):
        super().__init__(msg)
        self.term, self.stmt = term, stmt


def _shared(t):
    from vstat.terms import alts
    return any(a[0] in ("attr", "global", "param", "self") or (a[0] == "sub" and _shared(a[1])) for a in alts(t))


def local_dict_stores(fn, b, pcs, name, _depth=0):
    """[(key, value term, literals, stmt)] for ``name = {...}`` / ``name[const] = v`` in fn, in statement order.
    Raises AnalysisError for anything that is not modelled (update/pop/setdefault, non-constant keys, stores in loops)."""
    cfg = cfg_of(fn)
    out = []
    q = fn.qualname
    for st in cfg.all_stmts():
        if isinstance(st, ast.Assign):
            for tg in st.targets:
                if isinstance(tg, ast.Name) and tg.id == name:
                    if isinstance(st.value, ast.Name) and st.value.id != name and len(b.rd.all_defs(st.value.id)) == 1 and _depth < 3:
                        # fparams = other_local: the entries collected under that name (a helper's result after inlining)
                        for k_, v_, pc_, s_ in local_dict_stores(fn, b, pcs, st.value.id, _depth + 1):
                            out.append((k_, v_, pc_, s_))
                        continue
                    tv = b.term(st.value, st)
                    ents = dict_entries(tv)
                    if ents is None and _shared(tv):
                        raise SharedDict(f"{q}: {name} is {tv} - not a dict created in this call", tv, st)
                    if ents is None:
                        raise AnalysisError(f"{q}: {name} is not initialised with an enumerable dict (display, ** merge, filtered copy)")
                    for k, v, lits in ents:
                        if k[0] != "const":
                            raise AnalysisError(f"{q}: non-constant key in {name}")
                        out.append((k[1], v, tuple(pcs.of(st)) + tuple(lits), st))
                elif isinstance(tg, ast.Subscript) and isinstance(tg.value, ast.Name) and tg.value.id == name:
                    k = b.term(tg.slice, st)
                    if k[0] != "const":
                        raise AnalysisError(f"{q}: non-constant key stored into {name}")
                    out.append((k[1], b.term(st.value, st), tuple(pcs.of(st)), st))
        elif isinstance(st, ast.Expr) and isinstance(st.value, ast.Call):
            f = st.value.func
            if isinstance(f, ast.Attribute) and isinstance(f.value, ast.Name) and f.value.id == name and f.attr == "update":
                # d.update(k=v, ...) / d.update({"k": v}) are the stores d["k"] = v
                call = st.value
                ents = []
                ok = len(call.args) <= 1 and all(k_.arg is not None for k_ in call.keywords)
                if ok and call.args:
                    de = dict_entries(b.term(call.args[0], st))
                    ok = de is not None and all(k_[0] == "const" for k_, _v, _l in de)
                    ents += [(k_[1], v_, tuple(l_)) for k_, v_, l_ in (de or [])]
                if not ok:
                    raise AnalysisError(f"{q}: {name}.update() with an argument that is not an enumerable dict")
                ents += [(k_.arg, b.term(k_.value, st), ()) for k_ in call.keywords]
                for k_, v_, l_ in ents:
                    out.append((k_, v_, tuple(pcs.of(st)) + l_, st))
            elif isinstance(f, ast.Attribute) and isinstance(f.value, ast.Name) and f.value.id == name and f.attr in ("setdefault", "pop", "clear", "popitem"):
                raise AnalysisError(f"{q}: {name}.{f.attr}() is not modelled")
        elif isinstance(st, ast.Delete):
            for tg in st.targets:
                if isinstance(tg, ast.Subscript) and isinstance(tg.value, ast.Name) and tg.value.id == name:
                    raise AnalysisError(f"{q}: del {name}[...] is not modelled")
    return out


def star_star_name(call_node):
    """The local name passed as ** to the call (None if there is none); AnalysisError if it is not a plain name."""
    for k in call_node.keywords:
        if k.arg is None:
            if not isinstance(k.value, ast.Name):
                raise AnalysisError("** argument is not a local name")
            return k.value.id
    return None
