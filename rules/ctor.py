"""Constructor wiring of the contour classes: every argument is stored under its own name before the
base-class constructor triggers ``_compute``."""
import ast

from vstat.terms import builder, show, SELF, alts
from vstat.cfg import cfg_of

P = lambda n: ("param", n)


def ctor_stores(prog, rep, rule, cls_q, names, special=None):
    """names: attributes that must be assigned from the constructor parameter of the same name."""
    fn = prog.func(f"{cls_q}.__init__")
    rep.analysed(fn)
    b = builder(prog, fn, inline=False)
    cfg = cfg_of(fn)
    stored = {}
    nodes = {}
    for st in cfg.all_stmts():
        if isinstance(st, ast.Assign) and isinstance(st.targets[0], ast.Attribute) and isinstance(st.targets[0].value, ast.Name) and st.targets[0].value.id == "self":
            stored[st.targets[0].attr] = b.term(st.value, st)
            nodes[st.targets[0].attr] = st
    sup = [st for st in cfg.all_stmts() if isinstance(st, ast.Expr) and isinstance(st.value, ast.Call) and isinstance(st.value.func, ast.Attribute)
           and st.value.func.attr == "__init__" and isinstance(st.value.func.value, ast.Call)]
    bad = []
    for n in names:
        t = stored.get(n)
        if t is None or P(n) not in alts(t) or any(a != P(n) for a in alts(t)) and not (special and n in special):
            bad.append(f"self.{n} <- {show(t)[:50] if t else 'never assigned'}")
    order_ok = len(sup) == 1 and all(cfg.dominates(cfg.node(nodes[n]), cfg.node(sup[0])) for n in names if n in nodes)
    rep.check(not bad, rule, f"{cls_q}.__init__:stores", fn.where(), f"{', '.join(names)} stored under their own names",
              f"constructor arguments must be stored unmodified under their own names (the computation reads them back): {bad}")
    rep.check(order_ok, rule, f"{cls_q}.__init__:before-compute", fn.where(), "all arguments are stored before super().__init__() computes the contour",
              "every attribute must be assigned before super().__init__() (which calls _compute)")
