"""None means "not given"; 0 is a value.

A parameter whose default is None (and an attribute that __init__ fills from such a parameter) stands for an optional value.
Testing it by TRUTH - `if p:`, `p or default`, `not p` - treats every falsy value as absent: the seed 0, a parameter fixed at 0,
an upper bound 0, a weight 0, an empty-but-given array (which raises instead).  The sweep reports every such test in the package;
`p is None` / `p is not None` is the only accepted way to ask.  (Syntactic: the bare name or `self.<attr>`, as the test of an
if / while / conditional expression / assert, under `not`, or as a non-final operand of `or`.)
"""
import ast


def _none_defaults(fn):
    a = fn.args
    names = [x.arg for x in a.posonlyargs + a.args]
    dflt = dict(zip(names[len(names) - len(a.defaults):], a.defaults))
    for k, v in zip(a.kwonlyargs, a.kw_defaults):
        dflt[k.arg] = v
    return {k for k, v in dflt.items() if isinstance(v, ast.Constant) and v.value is None}


def _truthy_uses(fn, names):
    out = []

    def key(t):
        if isinstance(t, ast.Name) and t.id in names:
            return t.id
        if isinstance(t, ast.Attribute) and isinstance(t.value, ast.Name) and t.value.id == "self" and ("self." + t.attr) in names:
            return "self." + t.attr
        return None

    def chk(t, ln, kind):
        k = key(t)
        if k is not None:
            out.append((k, ln, kind))
        elif isinstance(t, ast.UnaryOp) and isinstance(t.op, ast.Not):
            chk(t.operand, ln, kind)
        elif isinstance(t, ast.BoolOp):
            for v in t.values:
                chk(v, ln, kind)

    for n in ast.walk(fn):
        if isinstance(n, (ast.If, ast.While, ast.IfExp)):
            chk(n.test, n.lineno, "test")
        elif isinstance(n, ast.BoolOp) and isinstance(n.op, ast.Or):
            for v in n.values[:-1]:
                chk(v, n.lineno, "or-default")
        elif isinstance(n, ast.Assert):
            chk(n.test, n.lineno, "assert")
        elif isinstance(n, ast.comprehension):
            for c in n.ifs:
                chk(c, c.lineno, "test")
    return out


def scan(classes):
    """classes: [(qualname prefix, [ast.FunctionDef of one class or of a module's top level])] -> (reports, names examined)
    report = (function qualname, name, line, kind)"""
    reports = []
    examined = 0
    for prefix, fns in classes:
        none_attrs = set()
        for fn in fns:
            if fn.name == "__init__":
                nd = _none_defaults(fn)
                for st in ast.walk(fn):
                    if isinstance(st, ast.Assign) and isinstance(st.targets[0], ast.Attribute) and isinstance(st.targets[0].value, ast.Name) \
                            and st.targets[0].value.id == "self" and isinstance(st.value, ast.Name) and st.value.id in nd:
                        none_attrs.add("self." + st.targets[0].attr)
                    # self.a = a if f_a is None else f_a  (the fixed value wins)
                    if isinstance(st, ast.Assign) and isinstance(st.targets[0], ast.Attribute) and isinstance(st.value, ast.IfExp):
                        pass
        for fn in fns:
            nd = _none_defaults(fn)
            examined += len(nd) + (len(none_attrs) if fn.name != "__init__" else 0)
            for name, ln, kind in _truthy_uses(fn, nd | none_attrs):
                reports.append((f"{prefix}.{fn.name}", name, ln, kind))
    return reports, examined


_POSITIVE = '''
class S:
    def __init__(self, f_mu=None, weights=None):
        self.f_mu = f_mu
        self.weights = weights
    def fit(self, data, random_state=None, upper=None):
        if random_state:
            pass
        if self.f_mu:
            pass
        bound = upper or 1.0
        if self.weights is not None:
            pass
        if random_state is not None and not data:
            pass
'''


def self_test():
    tree = ast.parse(_POSITIVE)
    cls = tree.body[0]
    reports, _ = scan([("S", [f for f in cls.body if isinstance(f, ast.FunctionDef)])])
    return {(r[0], r[1], r[3]) for r in reports} == {("S.fit", "random_state", "test"), ("S.fit", "self.f_mu", "test"), ("S.fit", "upper", "or-default")}


def rows(prog, rep, rule, keep=lambda name: True, what="an optional value"):
    """file the sweep under `rule` (one row per offending test whose name passes `keep`, one row for the sweep itself)"""
    from vstat.loader import AnalysisError
    if not self_test():
        raise AnalysisError("falsy: the built-in positive example is no longer reported")
    groups = {}
    for q, f in sorted(prog.functions.items()):
        if not (isinstance(f.node, ast.FunctionDef) and q.startswith("virocon.") and f.parent is None):
            continue
        prefix = q.rsplit(".", 1)[0]
        groups.setdefault(prefix, []).append(f.node)
    reports, examined = scan(sorted(groups.items()))
    if examined < 60:
        raise AnalysisError(f"falsy: only {examined} optional names found in the package (anchor: at least 60)")
    n = 0
    for q, name, ln, kind in reports:
        if not keep(name):
            continue
        n += 1
        fn = prog.functions.get(q)
        site = f"{fn.file}:{ln}" if fn is not None else q
        rep.fail(rule, f"{q}:{name}:truth-test", site,
                 f"{name} (None = not given) is tested by truth ({'`' + name + ' or ...`' if kind == 'or-default' else 'if ' + name}): the value 0 - a seed 0, a parameter fixed at 0, "
                 f"a bound 0 - is treated as absent; ask `{name} is None`")
    rep.ok(rule, "virocon:optional-values", "virocon/", f"{examined} optional names (None defaults and the attributes filled from them) examined, {n} tested by truth")
