"""C09 - joint fitting is order-invariant and fits each interval to exactly its own data (wiring)."""
import ast

from vstat.loader import AnalysisError
from vstat.terms import IT, builder, show, SELF, NONE, G, alts, walk, mentions, phi, strip_none
from vstat.guards import path_conditions
from vstat.cfg import cfg_of
from vstat.sigs import bind
from vstat import algebra
from . import c10, noneflow

JM = "virocon.jointmodels"
GHM = f"{JM}.GlobalHierarchicalModel"
CD = "virocon.distributions.ConditionalDistribution"
P = lambda n: ("param", n)
EXPL = ("C09.dims: in GlobalHierarchicalModel.fit distribution, data column, fit method, weights and conditioning index carry the same loop "
        "index i; the conditional branch passes (data, i, conditional_on[i]) and forwards the three results of the split plus method and weights; "
        "C09.split: the slicer of the conditioning dimension is applied to data[:, c] and its masks index the rows of the same data in column "
        "dist_idx; C09.masks: every mask returned by every _slice is aligned with input positions (same alignment typing as C10.align); "
        "C09.intervals: each interval is fitted on copy.deepcopy(template) with the interval's data and the given method/weights, estimates are "
        "appended in interval order, each dependence function is fitted with x = the interval reference values and y = the estimates under its own "
        "key; C09.defaults: missing description -> {'method': 'mle', 'weights': None}, missing weights -> None.")
ASSUME = ["equality with a stand-alone optimiser run and tie handling are runtime facts, not decided"]


def run(prog, rep):
    rep.explanation = EXPL + ' C09.membership: the slicer obligations of C10 (mask operators, shared edges, positions, size filter) filed under this property; C09.dependence: the fit / re-fit protocol obligations of C14 filed under this property.'
    rep.assumptions = ASSUME
    rep.part(dims, prog, rep)
    rep.part(split, prog, rep)
    rep.part(c10.align, prog, _Map(rep), "C09.masks")
    rep.part(intervals, prog, rep)
    rep.part(defaults, prog, rep)
    rep.part(none_defaults, prog, rep)
    rep.part(ties, prog, rep)
    # which observations fall in which interval is the slicers' business (C10): the same obligations are filed here too
    from vstat.report import Relabel
    sub = Relabel(rep, "C09.membership")
    for part in (c10.width_slicer, c10.number_slicer, c10.ppi, c10.drop, c10.minimum):
        rep.part(part, prog, sub)
    rep.expect_min("C09.membership", 20)
    # "the dependence functions are fitted to the (reference, estimate) pairs": how a dependence function is fitted and
    # re-fitted after its conditioners is C14's protocol; filed here too
    from . import c14
    dep = Relabel(rep, "C09.dependence")
    for part in (c14.bounds, c14.start_result, c14.protocol):
        rep.part(part, prog, dep)
    rep.expect_min("C09.dependence", 18)
    rep.expect_min("C09.ties", 1)
    rep.expect_min("C09.dims", 5)
    rep.expect_min("C09.split", 3)
    rep.expect_min("C09.masks", 4)
    rep.expect_min("C09.intervals", 5)
    rep.expect_min("C09.defaults", 5)
    rep.expect_min("C09.nonedefault", 2)


def ties(prog, rep):
    """Order invariance needs the interval of an observation to be a function of its VALUE.  A slicer that cuts the sorted order
    at fixed positions (equal counts) puts equal values on both sides of a cut into different intervals according to where they
    stand in the data matrix."""
    from vstat.terms import walk as _walk
    q = "virocon.intervals.PointsPerIntervalSlicer._slice"
    fn = prog.func(q)
    rep.analysed(fn)
    b = builder(prog, fn, inline=False)
    srt = ("call", G("numpy.argsort"), (P("data"),), ())
    hits = []
    for st in cfg_of(fn).all_stmts():
        if isinstance(st, ast.Assign) and isinstance(st.value, ast.Call):
            t = b.term(st.value, st)
            if t[0] == "call" and t[1] == G("numpy.split") and len(t[2]) == 2 and any(w == srt for w in _walk(t[2][0])):
                cnt = t[2][1]
                by_count = not any(w[0] == "call" and w[1] in (G("numpy.searchsorted"), G("numpy.unique"), G("numpy.flatnonzero"), G("numpy.diff")) for w in _walk(cnt))
                hits.append((st, by_count))
    if not hits:
        rep.ok("C09.ties", f"{q}:rank-split", fn.where(), "no equal-count split of the sorted order found: membership is not decided here", nontrivial=False)
        return
    bad = [st for st, by_count in hits if by_count]
    rep.check(not bad, "C09.ties", f"{q}:rank-split", fn.where(bad[0]) if bad else fn.where(),
              "cuts of the sorted order are placed at boundaries between different values",
              "the sorted order np.argsort(data) is cut into chunks of equal COUNT: equal conditioning values on both sides of a cut go to different intervals "
              "depending on their position in the data matrix, so the fitted model depends on the order of the rows whenever the conditioning variable has ties "
              "(rounded measurements)")


class _Map:
    def __init__(self, rep):
        self.rep = rep

    def __getattr__(self, n):
        return getattr(self.rep, n)


def _fills_none_method(prog):
    """_check_and_fill_fit_desc tests a described method against None (then it is its business what a None becomes)"""
    fn = prog.func(f"{GHM}._check_and_fill_fit_desc")
    for n in ast.walk(fn.node):
        if isinstance(n, ast.Compare) and any(isinstance(c, ast.Constant) and c.value is None for c in n.comparators) \
                and any(isinstance(x, ast.Constant) and x.value == "method" for x in ast.walk(n.left)):
            return True
        if isinstance(n, ast.BoolOp) and isinstance(n.op, ast.Or) and any(isinstance(x, ast.Constant) and x.value == "method" for x in ast.walk(n.values[0])):
            return True
    return False


def dims(prog, rep):
    q = f"{GHM}.fit"
    fn = prog.func(q)
    rep.analysed(fn)
    b = builder(prog, fn, inline=False)
    pcs = path_conditions(prog, fn, b)
    cfg = cfg_of(fn)
    fits = []
    for st in cfg.all_stmts():
        if isinstance(st, ast.Expr) and isinstance(st.value, ast.Call):
            t = b.term(st.value, st)
            if t[0] == "call" and t[1][0] == "attr" and t[1][2] == "fit":
                fits.append((st, t))
    data = ("call", G("numpy.array"), (P("data"),), ())
    fd = ("call", ("attr", SELF, "_check_and_fill_fit_desc"), (P("fit_descriptions"),), ())
    dists = ("attr", SELF, "distributions")
    cond = ("attr", SELF, "conditional_on")
    seen = {"marg": False, "cond": False}
    for st, t in fits:
        recv = t[1][1]
        args = t[2]
        site = fn.where(st)
        if not (recv[0] == "sub" and recv[1] == dists and recv[2][0] == "idx"):
            rep.fail("C09.dims", f"{q}:receiver", site, f"fit receiver must be self.distributions[i], found {show(recv)[:80]}")
            continue
        i = recv[2]
        rng_ok = i[2] == "range" and i[3] == (("attr", SELF, "n_dim"),)
        if i[2] == "enumerate" and fd is not None:
            # for i, desc in enumerate(<the filled descriptions>): one entry per dimension (their number is checked when they are filled)
            for lp_ in ast.walk(fn.node):
                if isinstance(lp_, ast.For) and f"{lp_.lineno}:{lp_.col_offset}" == i[1] and b.term(lp_.iter, lp_) == ("call", G("enumerate"), (fd,), ()):
                    rng_ok = True
        m = ("sub", ("sub", fd, i), ("const", "method"))
        w = ("sub", ("sub", fd, i), ("const", "weights"))
        ck = ("sub", cond, i)
        pc = pcs.of(st)

        def positional(callee_q):
            """the call's arguments in the order of the callee's own formals (keywords placed at their positions)"""
            names = [p_ for p_ in prog.func(callee_q).positional_params if p_ != "self"]
            bd = bind(t, names)
            if bd is None or set(bd) - set(names):
                return None
            out = []
            for n_ in names:
                if n_ not in bd:
                    break
                out.append(bd[n_])
            return tuple(out) if len(out) == len(bd) else None

        if ("isnone", ck) in pc:
            seen["marg"] = True
            names_ = [p_ for p_ in prog.func("virocon.distributions.Distribution.fit").positional_params if p_ != "self"]
            bd_ = bind(t, names_) or {}
            m_none = ("isnone", m) in pc
            # two call forms: with the described method, or - the description says None - without it (the distribution's own default)
            ok = (bd_.get("data") == ("col", data, i) and bd_.get("weights") == w and rng_ok
                  and (set(bd_) == {"data", "weights"} and m_none or set(bd_) == {"data", "method", "weights"} and bd_.get("method") == m))
            inst = f"{q}:unconditional" + (":none-method" if m_none else "")
            rep.check(ok, "C09.dims", inst, site, "distributions[i].fit(data[:, i], fit_descriptions[i]['method'], fit_descriptions[i]['weights'])",
                      f"the unconditional fit must use column i, method and weights of the SAME i for i in range(n_dim); found {[show(a)[:70] for a in bd_.values()]}")
            if "method" in bd_ and not m_none:
                # {'method': None} is accepted for a conditional dimension (ConditionalDistribution.fit: 'defaults to the distribution's default');
                # handed on to Distribution.fit it overrides the default 'mle' and method.lower() raises AttributeError
                tolerant = not noneflow.derefs(prog.func("virocon.distributions.Distribution.fit").node, "method")
                filled = _fills_none_method(prog)
                rep.check(("not", ("isnone", m)) in pc or tolerant or filled, "C09.nonedefault", f"{q}:unconditional:described-none", site,
                          "a described method None does not reach Distribution.fit's method.lower()",
                          "fit(data, [{'method': None}, None]) raised AttributeError: 'NoneType' object has no attribute 'lower' while [None, {'method': None}] "
                          "(the conditional dimension) fits with the default method: the same option is handled differently per dimension; "
                          "call fit without the method when it is None, or fill it in _check_and_fill_fit_desc")
        elif ("not", ("isnone", ck)) in pc:
            seen["cond"] = True
            sp = ("call", ("attr", SELF, "_split_in_intervals"), (data, i, ck), ())
            args = positional("virocon.distributions.ConditionalDistribution.fit") or args
            # the split call may name its arguments
            for w_ in walk(args[0]) if args else []:
                if w_[0] == "call" and w_[1] == ("attr", SELF, "_split_in_intervals") and w_ != sp:
                    names_sp = [p_ for p_ in prog.func(f"{GHM}._split_in_intervals").positional_params if p_ != "self"]
                    bsp = bind(w_, names_sp)
                    if bsp is not None and [bsp.get(n_) for n_ in names_sp] == [data, i, ck] and set(bsp) == set(names_sp):
                        sp = w_
            ok = args == (IT(sp, 0), IT(sp, 1), IT(sp, 2), m, w) and rng_ok
            rep.check(ok, "C09.dims", f"{q}:conditional", site,
                      "distributions[i].fit(*_split_in_intervals(data, i, conditional_on[i]), method_i, weights_i)",
                      f"the conditional fit must split (data, i, conditional_on[i]) and pass the interval data, reference values and boundaries in order "
                      f"with method and weights of the SAME i; found {[show(a)[:80] for a in args]}")
        else:
            rep.fail("C09.dims", f"{q}:branch", site, "fit call is not selected by 'conditional_on[i] is None' of the same i")
    for k, v in seen.items():
        if not v:
            rep.fail("C09.dims", f"{q}:{k}:missing", fn.where(), f"no {k} fit call found")
    # data dimension guard and description check dominate the fits (C18 has the details)
    rep.check(fd is not None, "C09.dims", f"{q}:descriptions", fn.where(), "fit options come from _check_and_fill_fit_desc(fit_descriptions)", "")
    # the split results keep their order
    sp_stmt = [st for st in cfg.all_stmts() if isinstance(st, ast.Assign) and isinstance(st.value, ast.Call)
               and isinstance(st.value.func, ast.Attribute) and st.value.func.attr == "_split_in_intervals"]
    rep.check(len(sp_stmt) == 1, "C09.dims", f"{q}:split-once", fn.where(), "one split per conditional dimension", "expected exactly one _split_in_intervals call")
    rep.check(2 <= len(fits) <= 4, "C09.dims", f"{q}:fit-sites", fn.where(), "fit sites (unconditional, conditional; each at most in two call forms)", f"expected 2..4 fit call sites, found {len(fits)}")


def split(prog, rep):
    q = f"{GHM}._split_in_intervals"
    fn = prog.func(q)
    rep.analysed(fn)
    b = builder(prog, fn, inline=False)
    ret = [s for s in cfg_of(fn).all_stmts() if isinstance(s, ast.Return)][0]
    t = b.term(ret.value, ret)
    data, di, ci = P("data"), P("dist_idx"), P("conditioning_idx")
    sl = ("call", ("attr", ("sub", ("attr", SELF, "interval_slicers"), ci), "slice_"), (("col", data, ci),), ())
    ok_slicer = t[0] == "tuple" and len(t[1]) == 3 and mentions(t, sl)
    rep.check(ok_slicer, "C09.split", f"{q}:slicer", fn.where(ret), "interval_slicers[c].slice_(data[:, c])",
              f"the slicer of the CONDITIONING dimension must slice the conditioning column: self.interval_slicers[conditioning_idx].slice_(data[:, conditioning_idx]); found {show(t)[:200]}")
    ok_data = False
    if t[0] == "tuple" and len(t[1]) == 3:
        d0 = t[1][0]
        if d0[0] == "comp" and d0[4] == IT(sl, 0):
            i = ("idx", d0[3], "iter")
            ok_data = d0[2] == ("sub", ("col", data, di), ("sub", IT(sl, 0), i))
    rep.check(ok_data, "C09.split", f"{q}:rows", fn.where(ret), "[data[mask, dist_idx] for mask in masks]",
              "each interval's data must be the rows of the SAME data matrix selected by that interval's mask, in column dist_idx")
    ok_rest = t[0] == "tuple" and len(t[1]) == 3 and t[1][1] == IT(sl, 1) and t[1][2] == IT(sl, 2)
    rep.check(ok_rest, "C09.split", f"{q}:order", fn.where(ret), "returns (interval data, reference values, boundaries)",
              "reference values and boundaries must be returned in that order, from the same slicing")


def intervals(prog, rep):
    q = f"{CD}.fit"
    fn = prog.func(q)
    rep.analysed(fn)
    b = builder(prog, fn, inline=False)
    cfg = cfg_of(fn)
    loops = [s for s in cfg.all_stmts() if isinstance(s, ast.For)]
    data_loop = [l for l in loops if b.term(l.iter, l) == P("data")]
    ok = False
    why = "no loop over the interval data found"
    appended_params = None
    if len(data_loop) == 1:
        lp = data_loop[0]
        el = ("sub", P("data"), ("idx", f"{lp.lineno}:{lp.col_offset}", "iter"))
        fresh = ("call", G("copy.deepcopy"), (("attr", SELF, "distribution"),), ())
        fit_ok = app_ok = par_ok = False
        pcs_ = path_conditions(prog, fn, b)
        outer = set(pcs_.of(lp))
        fits = []
        callee = prog.func("virocon.distributions.Distribution.fit")
        cpos = [p_ for p_ in callee.positional_params if p_ != "self"]
        if True:
            a_ = callee.node.args
            names_ = [x.arg for x in a_.args]
            dflt = dict(zip(names_[len(names_) - len(a_.defaults):], a_.defaults))
            m_default = dflt.get("method")
        default_is_method = isinstance(m_default, ast.Constant) and isinstance(m_default.value, str)
        NONE_M = ("isnone", P("method"))
        for st in [s_ for s_ in cfg.all_stmts() if lp in cfg.enclosing_loops(s_)]:
            if isinstance(st, ast.Expr) and isinstance(st.value, ast.Call):
                t = b.term(st.value, st)
                if t[0] == "call" and t[1] == ("attr", fresh, "fit"):
                    got = dict(zip(cpos, t[2]))
                    got.update(dict(t[3]))
                    own = [l for l in pcs_.of(st) if l not in outer]
                    form_ok = got.get(cpos[0]) == el and got.get("weights") == P("weights") and set(got) <= {cpos[0], "method", "weights"}
                    if "method" in got:
                        form_ok = form_ok and got["method"] == P("method") and all(l in (("not", NONE_M),) for l in own)
                    else:
                        # the template's own default method: only when none was asked for, and only if the template has one
                        form_ok = form_ok and own == [NONE_M] and default_is_method
                    fits.append((form_ok, own, t))
                    if not form_ok:
                        why = f"per-interval fit must be deepcopy(template).fit(interval_data, method, weights) (the template's default only when method is None); found {show(t)[:160]} under {[show(l) for l in own]}"
                elif t[0] == "call" and t[1][0] == "attr" and t[1][2] == "fit":
                    why = f"the per-interval fit receiver must be a fresh copy.deepcopy(self.distribution), found {show(t[1][1])[:80]}: fitting the template itself changes every later interval and the model"
                if t[0] == "call" and t[1] == ("attr", ("attr", SELF, "distributions_per_interval"), "append"):
                    app_ok = t[2] == (fresh,)
                if t[0] == "call" and t[1] == ("attr", ("attr", SELF, "parameters_per_interval"), "append"):
                    par_ok = t[2] == (("attr", fresh, "parameters"),)
        conds = sorted(repr(o) for _f, o, _t in fits)
        fit_ok = bool(fits) and all(f_ for f_, _o, _t in fits) and conds in ([repr([])], sorted([repr([NONE_M]), repr([("not", NONE_M)])]))
        ok = fit_ok and app_ok and par_ok
        if fit_ok and not (app_ok and par_ok):
            why = "the fitted copy and its parameters must be appended (in interval order) to distributions_per_interval / parameters_per_interval"
    rep.check(ok, "C09.intervals", f"{q}:per-interval", fn.where(), "for each interval: d = deepcopy(template); d.fit(interval, method, weights); append d, d.parameters", why)
    # lists reset before the loop
    resets = {a: False for a in ("distributions_per_interval", "parameters_per_interval")}
    for st in cfg.all_stmts():
        if isinstance(st, ast.Assign) and isinstance(st.targets[0], ast.Attribute) and st.targets[0].attr in resets:
            if b.term(st.value, st) == ("list", ()) and data_loop and cfg.dominates(cfg.node(st), cfg.node(data_loop[0])):
                resets[st.targets[0].attr] = True
    rep.check(all(resets.values()), "C09.intervals", f"{q}:reset", fn.where(), "per-interval lists start empty on every fit",
              "distributions_per_interval and parameters_per_interval must be reset to [] before the interval loop (re-fit must not accumulate)")
    cv_ok = False
    for st in cfg.all_stmts():
        if isinstance(st, ast.Assign) and isinstance(st.targets[0], ast.Attribute) and st.targets[0].attr == "conditioning_values":
            cv_ok = b.term(st.value, st) in (("call", G("numpy.array"), (P("conditioning_values"),), ()), ("call", G("numpy.asarray"), (P("conditioning_values"),), ()), P("conditioning_values"))
    rep.check(cv_ok, "C09.intervals", f"{q}:conditioning_values", fn.where(), "self.conditioning_values = array(conditioning_values)",
              "the interval reference values must be stored unmodified")
    dep_loop = [l for l in loops if b.term(l.iter, l) == ("call", ("attr", ("attr", SELF, "conditional_parameters"), "items"), (), ())]
    ok = False
    why = "no loop over self.conditional_parameters.items() found"
    if len(dep_loop) == 1:
        lp = dep_loop[0]
        lid = f"{lp.lineno}:{lp.col_offset}"
        CPm = ("attr", SELF, "conditional_parameters")
        key = ("key", CPm, ("idx", lid, "items"))
        dep = ("sub", CPm, key)
        for st in ast.walk(lp):
            if isinstance(st, ast.Expr) and isinstance(st.value, ast.Call):
                t = b.term(st.value, st)
                if t[0] == "call" and t[1] == ("attr", dep, "fit") and len(t[2]) == 2:
                    x, y = t[2]
                    yok = y[0] == "comp" and y[4] == ("attr", SELF, "parameters_per_interval") and y[2] == ("sub", ("sub", ("attr", SELF, "parameters_per_interval"), ("idx", y[3], "iter")), key)
                    xok = x == ("attr", SELF, "conditioning_values")
                    ok = xok and yok
                    why = (f"each dependence function must be fitted with x = the interval reference values and y = the per-interval estimates under ITS OWN "
                           f"parameter name; found x={show(x)[:60]} y={show(y)[:140]}")
    rep.check(ok, "C09.intervals", f"{q}:dependence", fn.where(), "dep_func.fit(conditioning_values, [params[par_name] for params in parameters_per_interval])", why)
    # order: the dependence loop comes after the interval loop
    if data_loop and dep_loop:
        rep.check(cfg.dominates(cfg.node(data_loop[0]), cfg.node(dep_loop[0])), "C09.intervals", f"{q}:order", fn.where(),
                  "dependence functions are fitted after all intervals", "the dependence functions must be fitted after the interval loop")


def none_defaults(prog, rep):
    """'method : str, optional - defaults to the distribution's default': a None default of a fit option (of any parameter of the
    package) must not be handed to a callee that dereferences it (rules/noneflow.py)."""
    from . import noneflow
    if not noneflow.self_test():
        raise AnalysisError("noneflow: the built-in positive example is no longer reported")
    fns = []
    for q, f in sorted(prog.functions.items()):
        if isinstance(f.node, ast.FunctionDef) and q.startswith("virocon.") and f.parent is None:
            fns.append((q, f.cls.name if f.cls is not None else None, f.node))
    template_fit = "virocon.distributions.Distribution.fit"

    def resolve(caller_q, call):
        # the template of a conditional distribution is a Distribution (C08 / C09.intervals rest on the same fact): its fit is Distribution.fit
        if caller_q.startswith(CD + ".") and isinstance(call.func, ast.Attribute) and call.func.attr == "fit":
            f_ = prog.func(caller_q)
            b_ = builder(prog, f_, inline=False)
            st_ = next((s_ for s_ in cfg_of(f_).all_stmts() if any(n_ is call for n_ in ast.walk(s_)) and not isinstance(s_, (ast.For, ast.While, ast.If, ast.With, ast.Try))), None)
            if st_ is not None:
                recv = b_.term(call.func.value, st_)
                if recv in (("attr", SELF, "distribution"), ("call", G("copy.deepcopy"), (("attr", SELF, "distribution"),), ())):
                    return template_fit
        return None
    reports, pairs = noneflow.scan(fns, resolve)
    with_none = sum(1 for _q, _c, n in fns if noneflow.none_defaults(n))
    if with_none < 20:
        raise AnalysisError(f"noneflow: only {with_none} functions with a None default found in the package (anchor: at least 20)")
    cd = prog.func(f"{CD}.fit")
    rep.analysed(cd)
    by_fn = {}
    for r in reports:
        by_fn.setdefault(r[1], []).append(r)
    # one row for the conditional fit (the documented 'defaults to the distribution's default'), one per other offender, one for the sweep
    for q in sorted(set(by_fn) | {cd.qualname}):
        rs = by_fn.get(q, [])
        fn = prog.func(q)
        what = "; ".join(f"{r[2]}=None reaches {r[3] or 'a dereference in the function itself'} (line {r[4]}), dereferenced there at line(s) {r[5]}" for r in rs)
        rep.check(not rs, "C09.nonedefault", f"{q}:none-default", fn.where(), "no None default reaches a dereference",
                  f"the documented default call crashes: {what} - e.g. ConditionalDistribution.fit(data, values, boundaries) passes method=None positionally to "
                  "Distribution.fit, overriding its 'mle' default, and method.lower() raises AttributeError")
    rep.ok("C09.nonedefault", "virocon:sweep", "virocon/", f"{with_none} functions with None defaults, {pairs} parameter / call pairs examined")


def _filled(v, entry):
    """v is the caller's description `entry` with weights=None added where it has none, as a NEW dict (or the entry itself, unchanged,
    where it already has weights): {"weights": None, **entry}, {**entry, "weights": entry.get("weights")}, entry if "weights" in entry else {...}"""
    W = ("const", "weights")
    if v[0] == "dict":
        items = list(v[1])
        if items == [(W, NONE), (("const", "**"), entry)]:
            return True
        get = [("call", ("attr", entry, "get"), (W,), ()), ("call", ("attr", entry, "get"), (W, NONE), ())]
        if len(items) == 2 and items[0] == (("const", "**"), entry) and items[1][0] == W and items[1][1] in get:
            return True
        return False
    if v[0] == "ifexp":
        test, a, b_ = v[1], v[2], v[3]
        has = ("cmp", "in", W, entry)
        if test == has:
            return a == entry and _filled(b_, entry)
        if test == ("not", has):
            return b_ == entry and _filled(a, entry)
    return False


def defaults(prog, rep):
    q = f"{GHM}._check_and_fill_fit_desc"
    fn = prog.func(q)
    rep.analysed(fn)
    b = builder(prog, fn, inline=False)
    pcs = path_conditions(prog, fn, b)
    cfg = cfg_of(fn)
    fdp = P("fit_descriptions")
    dflt = ("dict", ((("const", "method"), ("const", "mle")), (("const", "weights"), NONE)))
    d_ok = all_none = entry_none = w_none = False
    for st in cfg.all_stmts():
        if isinstance(st, ast.Assign):
            t = b.term(st.value, st)
            tg = st.targets[0]
            pc = pcs.of(st)
            if isinstance(tg, ast.Name) and t == dflt:
                d_ok = True
            if isinstance(tg, ast.Name) and tg.id == "fit_descriptions" and ("isnone", fdp) in pc:
                all_none = (t[0] == "comp" and t[2] == dflt and t[4] == ("call", G("range"), (("attr", SELF, "n_dim"),), ())) \
                    or t == ("bin", "*", ("list", (dflt,)), ("attr", SELF, "n_dim"))
            if isinstance(tg, ast.Subscript):
                base = b.term(tg.value, st)
                idx = b.term(tg.slice, st)
                if base == fdp and t == dflt and ("isnone", ("sub", fdp, idx)) in pc:
                    entry_none = True
                if base[0] == "sub" and base[1] == fdp and idx == ("const", "weights") and t == NONE:
                    w_none = ("not", ("cmp", "in", ("const", "weights"), base)) in pc
    # the filled descriptions collected in a NEW list (the caller's sequence may be a tuple, and its dicts are the caller's)
    stores = []
    for st in cfg.all_stmts():
        for tg in (st.targets if isinstance(st, ast.Assign) else [st.target] if isinstance(st, ast.AugAssign) else []):
            if isinstance(tg, ast.Subscript):
                base = b.term(tg.value, st)
                if base == fdp or (base[0] == "sub" and base[1] == fdp):
                    stores.append(st)
        if isinstance(st, ast.Expr) and isinstance(st.value, ast.Call):
            t = b.term(st.value, st)
            if t[0] == "call" and t[1][0] == "attr" and (t[1][1] == fdp or (t[1][1][0] == "sub" and t[1][1][1] == fdp)) \
                    and t[1][2] in ("append", "extend", "insert", "update", "setdefault", "pop", "clear", "remove", "sort", "reverse", "__setitem__"):
                stores.append(st)
            if t[0] == "call" and t[1][0] == "attr" and t[1][2] == "append" and len(t[2]) == 1 and cfg.enclosing_loops(st):
                pc = pcs.of(st)
                v = t[2][0]
                ents = [l[1] for l in pc if l[0] == "isnone" and l[1][0] == "sub" and l[1][1] == fdp]
                if v == dflt and ents:
                    entry_none = True
                for l in pc:
                    if l[0] == "not" and l[1][0] == "isnone" and l[1][1][0] == "sub" and l[1][1][1] == fdp and _filled(v, l[1][1]):
                        w_none = True
    rep.check(not stores, "C09.defaults", f"{q}:caller-unchanged", fn.where(stores[0]) if stores else fn.where(), "the caller's descriptions are not written to",
              "the defaults are written INTO the caller's fit_descriptions: a tuple of descriptions containing None raises TypeError ('tuple' object does not support "
              "item assignment), and a caller's list / dicts are changed behind its back (the description reused for another model now carries 'weights'); "
              "fill a new list with copies")
    for st, nm, t in b.list_values():
        # the all-None default built by a loop of appends
        if nm == "fit_descriptions" and ("isnone", fdp) in pcs.of(st) and t[0] == "comp" and t[2] == dflt and t[4] == ("call", G("range"), (("attr", SELF, "n_dim"),), ()):
            all_none = True
    rep.check(entry_none, "C09.defaults", f"{q}:entry", fn.where(), "entry None -> default of that entry",
              "a None entry must be replaced by the default description at the same index")
    rep.check(w_none, "C09.defaults", f"{q}:weights", fn.where(), "missing 'weights' -> None in the same entry",
              "a description without 'weights' must get weights=None in the same entry")
    ret = [s for s in cfg.all_stmts() if isinstance(s, ast.Return)]
    for r_ in ret:
        # the all-None default returned directly
        tr = b.term(r_.value, r_)
        if ("isnone", fdp) in pcs.of(r_) and ((tr[0] == "comp" and tr[2] == dflt and tr[4] == ("call", G("range"), (("attr", SELF, "n_dim"),), ()))
                                              or tr == ("bin", "*", ("list", (dflt,)), ("attr", SELF, "n_dim"))):
            all_none = True
    rep.check(d_ok and all_none, "C09.defaults", f"{q}:none", fn.where(), "no descriptions -> n_dim x {'method': 'mle', 'weights': None}",
              "fit_descriptions=None must become one {'method': 'mle', 'weights': None} per dimension")
    rep.check(bool(ret) and all(a in (fdp,) or a[0] in ("comp", "bin", "list") for r_ in ret for a in alts(b.term(r_.value, r_))), "C09.defaults", f"{q}:returns", fn.where(),
              "returns the (filled) descriptions", "must return the filled fit descriptions")
