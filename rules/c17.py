"""C17 - design conditions lie on the contour at the requested abscissa, top ordinate (wiring)."""
import ast

from vstat.loader import AnalysisError
from vstat.terms import children, degrade, top_alts, CMP, IT, guarded_alts, builder, show, SELF, NONE, G, alts, walk, mentions, phi, galts
from vstat.guards import path_conditions
from vstat.cfg import cfg_of
from vstat.sigs import bind
from vstat import algebra
from .c20 import swap_map, closed_series

P = lambda n: ("param", n)
EXPL = ("C17.swap: (x_idx, y_idx) = (1, 0) iff swap_axis else (0, 1); the abscissa series is column x_idx, the ordinate series column y_idx of "
        "contour.coordinates, each closed with its own first element; C17.probe: the probe is the vertical segment [x2, x2] spanning beyond the "
        "ordinate range by the same positive fraction of max(y); C17.result: the returned pair is (requested abscissa, np.max of the intersection "
        "ordinates), abscissae without intersection are skipped, result = columns (abscissae, ordinates); C17.default: default abscissae are a "
        "linspace between min and max of the abscissa series inset by a spacer, num = 10 or the integer given, an iterable is used as is; "
        "C17.inrange: intersection keeps a candidate iff both segment parameters lie in [0, 1] (four comparisons) and returns the solved x, y; "
        "C17.candidates: the segment pairs handed to the linear solve are ALL pairs whose bounding boxes overlap - one nonzero() of the "
        "conjunction of four non-strict comparisons min(seg_i of curve 1) <= max(seg_j of curve 2), max(seg_i) >= min(seg_j), for x and for y, "
        "over consecutive end points; no exit that returns fewer candidates on a condition about the data; "
        "C17.all: nothing between the intersection call and the max bounds the number of intersections (no assert / raise on their count).")
ASSUME = ["geometric correctness of the 4x4 linear solve for all polyline pairs is not decided"]


def run(prog, rep):
    rep.explanation = EXPL
    rep.assumptions = ASSUME
    rep.part(design, prog, rep)
    rep.part(inter, prog, rep)
    rep.part(candidates, prog, rep)
    rep.expect_min("C17.candidates", 3)
    rep.expect_min("C17.swap", 2)
    rep.expect_min("C17.probe", 2)
    rep.expect_min("C17.result", 3)
    rep.expect_min("C17.default", 2)
    rep.expect_min("C17.inrange", 3)
    rep.expect_min("C17.float", 2)
    rep.expect_min("C17.all", 1)
    from .purity import row as _stateless_row
    rep.part(_stateless_row, prog, rep, "C17", 2)
    # "swap_axis is equivalent to exchanging the two coordinates": the package's own caller (plot_2D_contour) must ask for the design
    # conditions of the exchanged contour exactly when it draws the exchanged contour - the design-condition rows of C20.contour
    from vstat.report import Relabel
    from . import c20
    rep.part(c20.contour, prog, Relabel(rep, "C17.caller", lambda r, inst: r == "C20.contour" and "design" in inst))
    rep.expect_min("C17.caller", 1)

def design(prog, rep):
    q = "virocon.utils.calculate_design_conditions"
    fn = prog.func(q)
    rep.analysed(fn)
    from vstat.terms import ConvTransparent, ConvTransparentPC
    # np.asarray(contour.coordinates, dtype=float): the values are the contour's; that they ARE converted is the obligation ':float' below
    b = ConvTransparent(builder(prog, fn, inline=False, guarded=True))
    pcs = ConvTransparentPC(path_conditions(prog, fn, b._b))
    cfg = cfg_of(fn)
    XI, YI = swap_map(fn, b, rep, "", q)
    coords = ("attr", P("contour"), "coordinates")
    calls = []
    for st in cfg.all_stmts():
        if isinstance(st, ast.Assign) and isinstance(st.value, ast.Call):
            t = b.term(st.value, st)
            if t[0] == "call" and t[1] == ("func", "virocon._intersection.intersection"):
                calls.append((st, t))
    if len(calls) != 1:
        raise AnalysisError(f"{q}: expected one call of intersection")
    st, t = calls[0]
    site = fn.where(st)
    if len(t[2]) != 4:
        raise AnalysisError(f"{q}: intersection must get four arguments")
    x1, y1, px, py = t[2]
    # differences and negations are taken of the coordinates: unsigned or narrow integers wrap around (a uint8 square probed at x = 2 gives ordinate -0.0,
    # with swap_axis the abscissa is dropped), so the contour's coordinates must be converted to float before they are used
    raw_t = b._b.term(st.value, st)
    fl = (G("float"), G("numpy.float64"), G("numpy.double"))
    conv_ok = any(w[0] == "call" and w[1] in (G("numpy.asarray"), G("numpy.array")) and w[2] == (coords,) and any(k == "dtype" and v in fl for k, v in w[3]) for w in walk(raw_t)) \
        and not any(w == ("col", coords, XI) or w == ("col", coords, YI) for w in walk(raw_t))
    rep.check(conv_ok, "C17.float", f"{q}:coordinates", site, "the coordinates are converted to float before they are used",
              "contour.coordinates is used in its own dtype: np.max(x1) - np.min(x1), np.diff and the negations in intersection() wrap around for unsigned / narrow integer "
              "coordinates - calculate_design_conditions of the uint8 square [[0,0],[4,0],[4,4],[0,4]] at x = 2 returns [[2, -0.0]] instead of [[2, 4]]; use np.asarray(..., dtype=float)")

    def closed(series, idx):
        col = ("col", coords, idx)
        return closed_series(series) in (col, ("call", ("attr", col, "tolist"), (), ()))

    rep.check(closed(x1, XI), "C17.swap", f"{q}:abscissae", site, "x1 = closed column x_idx, (x_idx, y_idx) = (1, 0) iff swap_axis",
              f"the abscissa series must be column x_idx of contour.coordinates closed with its own first element, x_idx = 1 iff swap_axis; found {show(x1)[:160]}")
    rep.check(closed(y1, YI), "C17.swap", f"{q}:ordinates", site, "y1 = closed column y_idx",
              f"the ordinate series must be column y_idx of contour.coordinates closed with its own first element, y_idx = 0 iff swap_axis; found {show(y1)[:160]}")
    def abstract_extrema(t):
        """min / max of the abscissa (x) and ordinate (y) series -> symbols, whatever the spelling:
        np.min(series), np.min(coords[:, k]), coords.min(axis=0)[k], np.min(coords, axis=0)[k] (the closing point adds no new value)."""
        m = {}
        for s_ in walk(t):
            for kind, fname in (("min", "numpy.min"), ("max", "numpy.max")):
                for ax, series, idx in (("x", x1, XI), ("y", y1, YI)):
                    col = ("col", coords, idx)
                    forms = [("call", G(fname), (series,), ()), ("call", G(fname), (col,), ()), ("call", G(kind), (series,), ()), ("call", G(kind), (col,), ()),
                             ("call", ("attr", series, kind), (), ()), ("call", ("attr", col, kind), (), ()),
                             ("sub", ("call", ("attr", coords, kind), (), (("axis", ("const", 0)),)), idx),
                             ("sub", ("call", G(fname), (coords,), (("axis", ("const", 0)),)), idx)]
                    if s_ in forms:
                        m[s_] = ("sym", kind + ax)
        from vstat.terms import subst as _subst
        return _subst(t, m)

    # probe
    lp = cfg.enclosing_loops(st)
    okp = False
    x2 = None
    if lp and px[0] in ("list", "tuple") and len(px[1]) == 2 and px[1][0] == px[1][1]:
        x2 = px[1][0]
        okp = x2[0] == "sub" and x2[2][0] == "idx" and x2[2][1] == f"{lp[-1].lineno}:{lp[-1].col_offset}"
    rep.check(okp, "C17.probe", f"{q}:vertical", site, "probe abscissae [x2, x2] for the loop's own x2",
              f"the probe must be the vertical segment at the requested abscissa ([x2, x2]); found {show(px)[:100]}")
    oky = False
    why = f"probe ordinates must span beyond [min(y1), max(y1)]; found {show(py)[:160]}"
    if py[0] in ("list", "tuple") and len(py[1]) == 2:
        lo, hi = abstract_extrema(py[1][0]), abstract_extrema(py[1][1])
        mn, mx = ("sym", "miny"), ("sym", "maxy")
        for c in (0.1, 0.05, 0.2, 0.5, 1.0):
            # the margin must be positive whatever the sign of the ordinates: a fraction of the ordinate RANGE, or of an absolute value
            for M in (("bin", "*", ("bin", "-", mx, mn), ("const", c)), ("bin", "*", ("call", G("numpy.abs"), (mx,), ()), ("const", c)),
                      ("bin", "*", ("call", G("abs"), (mx,), ()), ("const", c))):
                if algebra.same(lo, ("bin", "-", mn, M)) and algebra.same(hi, ("bin", "+", mx, M)):
                    oky = True
            if algebra.same(lo, ("bin", "-", mn, ("bin", "*", mx, ("const", c)))) and algebra.same(hi, ("bin", "+", mx, ("bin", "*", mx, ("const", c)))):
                why = ("the probe ends are min(y1) - c*max(y1) and max(y1) + c*max(y1): for a contour whose ordinates are all negative the margin is negative, the "
                       "probe is SHORTER than the contour at both ends and the top crossing is lost (the square [[0,-3],[2,-3],[2,-1],[0,-1]] probed at 1.0 returns nothing)")
    rep.check(oky, "C17.probe", f"{q}:span", site, "probe ordinates [min(y1) - m, max(y1) + m] with a margin m >= 0 for every contour", why)
    # result
    ys = IT(t, 1)
    xs_ = IT(t, 0)
    fx = fy = None
    # the ordinates the maximum is taken of: the crossing points, possibly joined with the contour vertices lying ON the probe line
    # (y1[x1 == x2]: an edge of the contour that lies on the line has no single crossing point, intersection() reports none for it)
    ymax_of = None
    ext = []
    for ya in (y1, closed_series(y1)):
        for xa in (x1, closed_series(x1)):
            if x2 is None or ya is None or xa is None:
                continue
            for on in (("sub", ya, CMP("==", xa, x2)), ("sub", ya, CMP("==", x2, xa)), ("sub", ya, ("call", G("numpy.isclose"), (xa, x2), ())),
                       ("sub", ya, ("call", G("numpy.equal"), (xa, x2), ()))):
                ext += [("call", G("numpy.append"), (ys, on), ()), ("call", G("numpy.append"), (on, ys), ()),
                        ("call", G("numpy.concatenate"), (("list", (ys, on)),), ()), ("call", G("numpy.concatenate"), (("tuple", (ys, on)),), ()),
                        ("call", G("numpy.concatenate"), (("list", (on, ys)),), ()), ("call", G("numpy.concatenate"), (("tuple", (on, ys)),), ()),
                        ("call", G("numpy.r_"), (ys, on), ()), ("call", G("numpy.hstack"), (("tuple", (ys, on)),), ()), ("call", G("numpy.hstack"), (("list", (ys, on)),), ())]
    for s in cfg.all_stmts():
        if isinstance(s, ast.Expr) and isinstance(s.value, ast.Call) and isinstance(s.value.func, ast.Attribute) and s.value.func.attr == "append" and cfg.enclosing_loops(s):
            a = b.term(s.value.args[0], s)
            # a value chosen earlier (a None sentinel for "no crossing"): keep the alternatives the statement's own guards allow
            pc_s = {degrade(x_) for x_ in pcs.of(s)}
            live = [v_ for l_, v_ in top_alts(a) if not any(("not", degrade(x_)) in pc_s or (x_[0] == "not" and degrade(x_[1]) in pc_s) for x_ in l_)]
            if len(live) == 1:
                a = live[0]
            if a == x2:
                fx = (s, s.value.func.value.id)
            elif a[0] == "call" and a[1] in (G("numpy.max"), G("max")) and len(a[2]) == 1 and not a[3] and a[2][0] in [ys] + ext:
                fy = (s, s.value.func.value.id)
                ymax_of = a[2][0]
            else:
                rep.fail("C17.result", f"{q}:append", fn.where(s), f"a design condition must pair the requested abscissa with np.max of the intersection ordinates; appended {show(a)[:100]}")
    rep.check(fx is not None and fy is not None, "C17.result", f"{q}:pair", site, "(x2, np.max(y)) appended per abscissa",
              "each design condition must be (requested abscissa, largest intersection ordinate): np.max of the ordinates returned by intersection")
    # an abscissa is skipped iff the intersection is empty: the appends run exactly under "len(y) != 0" (whatever the spelling:
    # continue on == 0, a positive guard, truthiness of the length); literals of assert statements are C17.all's business
    from vstat.guards import literals as _lits
    oks = fx is not None and fy is not None
    skip_at = site
    if oks:
        asserted = set()
        for s in cfg.all_stmts():
            if isinstance(s, ast.Assert):
                asserted |= set(_lits(b.term(s.test, s), True))
        lp = cfg.enclosing_loops(fx[0])[-1]
        outer = set(pcs.of(lp))
        def nonempty(l):
            for ser in ((ymax_of,) if ymax_of in ext else (ys, xs_)):
                ln = ("call", G("len"), (ser,), ())
                if l in (("not", CMP("==", ln, ("const", 0))), CMP(">", ln, ("const", 0)), CMP(">=", ln, ("const", 1)), ln,
                         ("not", CMP("<", ln, ("const", 1))), ("not", CMP("<=", ln, ("const", 0))), ("not", ("not", ln)),
                         CMP(">", ("attr", ser, "size"), ("const", 0)), ("attr", ser, "size")):
                    return True
            return False
        for s_, _n in (fx, fy):
            own = [l for l in pcs.of(s_) if l not in outer and l not in asserted]
            if not own or not all(nonempty(l) for l in own):
                oks = False
                skip_at = fn.where(s_)
    rep.check(oks, "C17.result", f"{q}:skip", skip_at, "no intersection -> abscissa skipped, any intersection -> recorded",
              "an abscissa is skipped exactly when it does not cross the contour (len(y) == 0): the appends must run under 'the intersection is not empty' and under nothing else")
    # a contour edge lying on the probe line: intersection() solves a 4x4 system per pair of segments and drops the singular ones
    # (parallel segments, its LinAlgError handler), so the ordinates of such an edge come only from the vertices themselves
    inter = prog.func("virocon._intersection.intersection")
    rep.analysed(inter)
    drops_parallel = any(isinstance(h, ast.ExceptHandler) and h.type is not None and "LinAlgError" in ast.unparse(h.type) for h in ast.walk(inter.node))
    if fy is not None and drops_parallel:
        rep.check(ymax_of in ext, "C17.result", f"{q}:on-line", fn.where(fy[0]), "the ordinates include the contour vertices lying on the probe line",
                  "a contour edge that lies on the probe line (a vertical edge at a requested abscissa, e.g. the side of a rectangle or of a grid-aligned "
                  "highest-density contour) is parallel to the probe, intersection() reports no point for it: the abscissa is skipped or gets a smaller "
                  "ordinate from another crossing although the contour reaches higher there; the maximum must also run over y1[x1 == x2]")
    rets = [s for s in cfg.all_stmts() if isinstance(s, ast.Return)]
    rt = b.term(rets[-1].value, rets[-1]) if rets else None
    okr = rt is not None and rt[0] == "cols" and len(rt[1]) == 2 and fx is not None and fy is not None
    if okr:
        src = rets[-1].value
        if isinstance(src, ast.Name):
            d = [s for s in cfg.all_stmts() if isinstance(s, ast.Assign) and isinstance(s.targets[0], ast.Name) and s.targets[0].id == src.id]
            src = d[-1].value if d else src
        names = [n.id for n in ast.walk(src) if isinstance(n, ast.Name) and n.id in (fx[1], fy[1])]
        pos = {(n.lineno, n.col_offset): n.id for n in ast.walk(src) if isinstance(n, ast.Name) and n.id in (fx[1], fy[1])}
        okr = [pos[k] for k in sorted(pos)] == [fx[1], fy[1]]
    rep.check(okr, "C17.result", f"{q}:columns", fn.where(rets[-1]) if rets else site, "returns np.c_[abscissae, ordinates]",
              "the result must have the requested abscissae in column 0 and their ordinates in column 1")
    # C17.all: no assert / raise on the number of intersections
    xs = xs_
    bad = []
    for s in cfg.all_stmts():
        if isinstance(s, (ast.Assert, ast.Raise)) or (isinstance(s, ast.If) and any(isinstance(n, ast.Raise) for n in s.body)):
            test = s.test if isinstance(s, (ast.Assert, ast.If)) else None
            if test is not None:
                tt = b.term(test, s)
                if any(w == ("call", G("len"), (ys,), ()) or w == ("call", G("len"), (xs,), ()) for w in walk(tt)):
                    if not (isinstance(s, ast.If)):
                        bad.append(s)
                    elif any(isinstance(n, ast.Raise) for n in s.body):
                        bad.append(s)
    rep.check(not bad, "C17.all", f"{q}:intersection-count", fn.where(bad[0]) if bad else site, "the number of intersections is not bounded",
              f"an assertion bounds the number of intersections ({[ast.unparse(s)[:40] for s in bad]}): a non-convex (star-shaped) contour, or a probe through a vertex, "
              "has more than two crossings and raises AssertionError instead of returning the top ordinate")
    # defaults
    mnx, mxx = ("sym", "minx"), ("sym", "maxx")
    spacer = None
    steps_defs = [d for d in b.rd.all_defs("steps") if d.kind == "assign"]
    got = []
    for d in steps_defs:
        tt = b.def_term(d)
        bd = bind(tt) if tt[0] == "call" and tt[1] == G("numpy.linspace") else None
        if bd:
            # the count may be chosen before the call (steps = 10 when None, then one shared linspace): split by its guards
            num_t = bd.get("num", ("const", 50))
            not_none = [l_[1][1] for l_ in pcs.of(d.stmt) if l_[0] == "not" and l_[1][0] == "isnone"]
            for lits, num in guarded_alts(num_t):
                if num == NONE and any(degrade(x_) == degrade(num_t) for x_ in not_none):
                    continue   # the call runs under 'count is not None': the None alternative of the count does not reach it
                conds = set(pcs.of(d.stmt)) | set(lits)
                kind = "none" if ("isnone", P("steps")) in conds else "int" if any(l[0] == "handler" for l in conds) else "?"
                got.append((kind, dict(bd, num=num)))
    ok = {k for k, _ in got} == {"none", "int"}
    why = "default abscissae not found for steps=None and steps=<int>"
    if ok:
        for kind, bd in got:
            lo, hi = abstract_extrema(bd.get("start", NONE)), abstract_extrema(bd.get("stop", NONE))
            sp = None
            if lo is not None and lo[0] == "bin" and lo[1] == "+" and algebra.same(lo[2], mnx):
                sp = lo[3]
            inset = sp is not None and algebra.same(hi, ("bin", "-", mxx, sp)) and any(algebra.same(sp, ("bin", "*", ("const", c), ("bin", "-", mxx, mnx))) for c in (0.0001, 0.001, 1e-5, 1e-6))
            num_ok = bd.get("num") == (("const", 10) if kind == "none" else P("steps"))
            if not (inset and num_ok and bd.get("endpoint", ("const", True)) == ("const", True)):
                ok = False
                why = f"steps={'None' if kind == 'none' else 'int'}: default abscissae must be linspace(min(x1)+spacer, max(x1)-spacer, num={'10' if kind == 'none' else 'steps'}, endpoint=True); found {({k: show(v)[:60] for k, v in bd.items()})}"
    rep.check(ok, "C17.default", f"{q}:linspace", fn.where(), "default abscissae span the contour's extent (inset by a spacer), num = 10 or the integer given", why)
    it_ok = any(isinstance(s, ast.Expr) and any(a == ("call", G("iter"), (P("steps"),), ()) for _l, a in guarded_alts(b.term(s.value, s))) for s in cfg.all_stmts())
    lps = [s for s in cfg.all_stmts() if isinstance(s, ast.For)]
    used = bool(lps) and any(P("steps") in alts(a) for _l, a in guarded_alts(b.term(lps[0].iter, lps[0])))
    rep.check(it_ok and used, "C17.default", f"{q}:iterable", fn.where(), "an iterable of abscissae is used as is",
              "explicit abscissae (any iterable) must be used as given")


def inter(prog, rep):
    q = "virocon._intersection.intersection"
    fn = prog.func(q)
    rep.analysed(fn)
    # the four series are converted to float first (np.diff and unary minus of unsigned / narrow integers wrap around)
    pp = [p_ for p_ in fn.positional_params][:4]
    unconv = []
    for p_ in pp:
        conv = [s_ for s_ in ast.walk(fn.node) if isinstance(s_, ast.Assign) and isinstance(s_.targets[0], ast.Name) and s_.targets[0].id == p_ and isinstance(s_.value, ast.Call)
                and ast.unparse(s_.value.func) in ("np.asarray", "np.array", "numpy.asarray", "numpy.array") and s_.value.args and ast.unparse(s_.value.args[0]) == p_
                and any(k.arg == "dtype" and ast.unparse(k.value) in ("float", "np.float64", "numpy.float64") for k in s_.value.keywords)]
        if not conv:
            unconv.append(p_)
    rep.check(not unconv, "C17.float", f"{q}:series", fn.where(), "x1, y1, x2, y2 are converted to float",
              f"{unconv} used in the caller's dtype: intersection of the diagonals of [0,2]^2 given as uint8 returns no point, as uint64 the wrong point (2, 2): differences of "
              "descending edges and -x wrap around; convert with np.asarray(..., dtype=float)")
    b = builder(prog, fn, inline=False)
    cfg = cfg_of(fn)
    rets = [s for s in cfg.all_stmts() if isinstance(s, ast.Return)]
    t = b.term(rets[-1].value, rets[-1])
    ok = False
    mask = None
    T = None
    if t[0] == "tuple" and len(t[1]) == 2:
        a0, a1 = t[1]
        # rows 0 and 1 of xy0 = T[2:, in_range], spelled xy0.T[:, k], xy0[k] or xy0[k, :]
        def row(a):
            if a[0] == "col" and a[1][0] == "attr" and a[1][2] == "T" and a[2][0] == "const":
                return a[1][1], a[2][1]
            if a[0] == "sub" and a[2][0] == "const":
                return a[1], a[2][1]
            if a[0] == "sub" and a[2][0] == "tuple" and len(a[2][1]) == 2 and a[2][1][0][0] == "const" and a[2][1][1] == ("slice", NONE, NONE, NONE):
                return a[1], a[2][1][0][1]
            return None, None
        (b0, k0), (b1, k1) = row(a0), row(a1)
        if b0 is not None and b0 == b1 and (k0, k1) == (0, 1):
            base = b0
            if base[0] == "sub" and base[2][0] == "tuple" and base[2][1][0] == ("slice", ("const", 2), NONE, NONE):
                T = base[1]
                mask = base[2][1][1]
                ok = True
    rep.check(ok, "C17.inrange", f"{q}:solution", fn.where(rets[-1]), "returns rows 2 (x) and 3 (y) of the solved system for the in-range candidates",
              f"the crossing points must be the solved (x, y) rows of T restricted to the in-range candidates; found {show(t)[:160]}")
    okm = False
    why = "in-range mask not recognised"
    if mask is not None:
        parts = []
        def flat(m):
            if m[0] == "bin" and m[1] == "&":
                flat(m[2]); flat(m[3])
            else:
                parts.append(m)
        flat(mask)
        want = set()
        for row in (0, 1):
            tr = ("sub", T, ("tuple", (("const", row), ("slice", NONE, NONE, NONE))))
            want.add(CMP(">=", tr, ("const", 0)))
            want.add(CMP("<=", tr, ("const", 1)))
        # T[0, :] canonicalises to col/sub forms; compare by shape instead
        got = set()
        for c in parts:
            if c[0] == "cmp" and c[1] in (">=", "<=") and c[3][0] == "const":
                row = None
                lhs = c[2]
                if lhs[0] == "sub" and lhs[1] == T:
                    ix = lhs[2]
                    if ix[0] == "tuple" and len(ix[1]) == 2 and ix[1][1] == ("slice", NONE, NONE, NONE):
                        ix = ix[1][0]
                    if ix[0] == "const" and isinstance(ix[1], int):
                        row = ix[1]
                got.add((c[1], row, c[3][1]))
        okm = got == {(">=", 0, 0), (">=", 1, 0), ("<=", 0, 1), ("<=", 1, 1)} and len(parts) == 4 and all(mentions(c, T) for c in parts)
        why = f"a candidate is a crossing iff BOTH segment parameters lie in [0, 1]: t0 >= 0, t1 >= 0, t0 <= 1, t1 <= 1 (inclusive); found {sorted(map(str, got))}"
    rep.check(okm, "C17.inrange", f"{q}:range", fn.where(), "0 <= t0 <= 1 and 0 <= t1 <= 1", why)
    # a candidate whose 4x4 system is singular (parallel segments with overlapping boxes) has no solution: its column of T must be marked
    # out of range - the buffer starts as zeros, and a zero column PASSES 0 <= t <= 1, i.e. reports a crossing at (0, 0)
    tname = None
    tinit = None
    for tr_ in ast.walk(fn.node):
        if isinstance(tr_, ast.Try):
            for s_ in tr_.body:
                if isinstance(s_, ast.Assign) and isinstance(s_.targets[0], ast.Subscript) and isinstance(s_.targets[0].value, ast.Name) \
                        and any(isinstance(c_, ast.Call) and isinstance(c_.func, ast.Attribute) and c_.func.attr == "solve" for c_ in ast.walk(s_.value)):
                    tname = s_.targets[0].value.id
    for st in cfg.all_stmts():
        if isinstance(st, ast.Assign) and isinstance(st.targets[0], ast.Name) and st.targets[0].id == tname and not cfg.enclosing_loops(st):
            tinit = b.term(st.value, st)
    safe_init = tinit is not None and tinit[0] == "call" and tinit[1] == G("numpy.full") and len(tinit[2]) == 2 and tinit[2][1] in (G("numpy.nan"), G("numpy.inf"))
    handlers = [h for h in ast.walk(fn.node) if isinstance(h, ast.ExceptHandler)]
    solves = [n for n in ast.walk(fn.node) if isinstance(n, ast.Call) and isinstance(n.func, ast.Attribute) and n.func.attr == "solve"]
    bad_h = []
    for h in handlers:
        marks = [s_ for s_ in ast.walk(h) if isinstance(s_, ast.Assign) and isinstance(s_.targets[0], ast.Subscript) and isinstance(s_.targets[0].value, ast.Name)
                 and s_.targets[0].value.id == tname and ast.unparse(s_.value).replace("numpy", "np") in ("np.inf", "np.nan", "-np.inf", "float('inf')", "float('nan')", "np.NaN")]
        leaves = any(isinstance(s_, ast.Raise) for s_ in ast.walk(h))
        if not marks and not leaves and not safe_init:
            bad_h.append(h)
    if solves and tname is not None:
        rep.check(bool(handlers) and not bad_h, "C17.inrange", f"{q}:singular", fn.where(bad_h[0]) if bad_h else fn.where(),
                  "a candidate without a solution is marked out of range (inf / nan)",
                  "the handler of a singular system leaves the candidate's column of T as it is: T starts as np.zeros, a zero column satisfies 0 <= t <= 1, so every pair of "
                  "parallel segments with overlapping bounding boxes adds a spurious crossing at (0, 0) - the square [[0,-3],[2,-3],[2,-1],[0,-1]] probed at x = 0 gets the "
                  "design condition (0, 0) instead of (0, -1); store np.inf (or nan) into T[:, i]")


# --------------------------------------------------------------- candidates
def _conjuncts(m, out):
    if m[0] == "bin" and m[1] == "&":
        _conjuncts(m[2], out); _conjuncts(m[3], out)
    elif m[0] == "call" and m[1] == G("numpy.logical_and") and len(m[2]) == 2:
        _conjuncts(m[2][0], out); _conjuncts(m[2][1], out)
    elif m[0] == "and":
        for x in m[1]:
            _conjuncts(x, out)
    else:
        out.append(m)


def _series_sig(t):
    """(parameter, reduction) of one side of a bounding-box comparison: which of x1/y1/x2/y2 it is computed from and whether
    it is a minimum or a maximum over the two end points of a segment; None if it is not of that kind."""
    from vstat.terms import ordered
    def data_params(x, out):
        # parameters the VALUES come from: a curve mentioned only through its length (tile repetitions) does not count
        if x[0] == "param":
            out.add(x[1])
            return
        if (x[0] == "attr" and x[2] in ("shape", "size", "ndim")) or (x[0] == "call" and x[1] == G("len")):
            return
        for y in children(x):
            data_params(y, out)
    pars = set()
    data_params(t, pars)
    red = set()
    for w in walk(t):
        if w[0] == "call" and w[1] in (G("numpy.min"), G("numpy.minimum"), G("numpy.amin"), G("min")):
            red.add("min")
        if w[0] == "call" and w[1] in (G("numpy.max"), G("numpy.maximum"), G("numpy.amax"), G("max")):
            red.add("max")
    ends = {w[2] for w in walk(t) if w[0] == "sub" and w[2][0] == "slice"}
    both = ("slice", NONE, ("const", -1), NONE) in ends and ("slice", ("const", 1), NONE, NONE) in ends
    if len(pars & {"x1", "y1", "x2", "y2"}) == 1 and len(red) == 1 and both:
        return (next(iter(pars & {"x1", "y1", "x2", "y2"})), next(iter(red)))
    return None


def candidates(prog, rep):
    from vstat.terms import ordered
    q = "virocon._intersection.intersection"
    fn = prog.func(q)
    b = builder(prog, fn, inline=True)
    cfg = cfg_of(fn)
    # everything the result depends on: the returned crossing points are rows of the solved system, whose size and
    # right-hand side are indexed by the candidate pairs
    rets = [s_ for s_ in cfg.all_stmts() if isinstance(s_, ast.Return) and s_.value is not None]
    st = rets[-1]
    roots = [b.term(r_.value, r_) for r_ in rets]
    for s_ in cfg.all_stmts():
        if isinstance(s_, ast.Assign):
            roots.append(b.term(s_.value, s_))
    is_nz = lambda x: x[0] == "call" and x[1] == G("numpy.nonzero")
    main, other = set(), set()

    def scan(x):
        if is_nz(x):
            main.add(x)
            return
        if x[0] in ("phi", "gphi", "ifexp") and any(is_nz(w) for w in walk(x)):
            # a choice between candidate sets: fine only if every alternative is the same np.nonzero(...) element
            al_ = {a for _l, a in top_alts(x)}
            if all(a[0] == "sub" and is_nz(a[1]) for a in al_) or all(is_nz(a) for a in al_):
                for a in al_:
                    scan(a)
            else:
                other.add(x)
            return
        for y in children(x):
            scan(y)
    for r_ in roots:
        scan(r_)
    if not main and not other:
        raise AnalysisError(f"{q}: the candidate index pair (np.nonzero of an overlap mask) was not found")
    main = sorted(main, key=repr)
    rep.check(len(main) == 1 and not other, "C17.candidates", f"{q}:all-pairs", fn.where(st),
              "the candidate pairs are the index arrays of one np.nonzero(mask), on every path",
              "the candidate segment pairs must be the index arrays of ONE np.nonzero(overlap mask) on every path; found "
              f"{len(main)} masks and a choice that depends on the data: {[show(a)[:110] for a in sorted(other, key=repr)][:2]}")
    main = [((), m_) for m_ in main]
    if not main:
        return
    m = main[0][1][2][0]
    cj = []
    _conjuncts(m, cj)
    got = set()
    bad = []
    for c in cj:
        o = ordered(c) if c[0] == "cmp" else None
        if o is None:
            bad.append(f"not an order comparison: {show(c)[:80]}")
            continue
        lo, hi, strict = o
        sl, sh = _series_sig(lo), _series_sig(hi)
        if strict:
            bad.append(f"strict comparison (touching boxes are lost): {show(c)[:80]}")
        if sl is None or sh is None:
            bad.append(f"side not a min/max over the two end points of the segments of one curve: {show(c)[:80]}")
            continue
        got.add((sl, sh))
    want = {(("x1", "min"), ("x2", "max")), (("x2", "min"), ("x1", "max")), (("y1", "min"), ("y2", "max")), (("y2", "min"), ("y1", "max"))}
    rep.check(not bad and got == want and len(cj) == 4, "C17.candidates", f"{q}:overlap", fn.where(st),
              "mask = [min1 <= max2] & [max1 >= min2] in x and in y (non-strict)",
              "a pair of segments is a candidate iff their bounding boxes overlap in x AND in y (four non-strict comparisons of segment minima and maxima); "
              + ("; ".join(bad) if bad else f"found the comparisons {sorted(got)} ({len(cj)} conjuncts)"))
    # orientation: rows of the mask are the segments of curve 1 (ii indexes x1 / y1), columns those of curve 2
    verdict = None
    for c in cj:
        o = ordered(c) if c[0] == "cmp" else None
        if o is None:
            continue
        for side in o[:2]:
            sg = _series_sig(side)
            if sg is None:
                continue
            transposed = side[0] == "attr" and side[2] == "T"
            tiled = side[1] if transposed else side
            if tiled[0] == "call" and tiled[1] == G("numpy.tile"):
                v = transposed == (sg[0] in ("x1", "y1"))
                verdict = v if verdict is None else (verdict and v)
    if verdict is None:
        rep.ok("C17.candidates", f"{q}:orientation", fn.where(st), "broadcast form not one this rule reads: which axis is which curve is not decided here", nontrivial=False)
    else:
        rep.check(verdict, "C17.candidates", f"{q}:orientation", fn.where(st), "rows = segments of curve 1, columns = segments of curve 2",
                  "the first index array must number the segments of the first curve (its extremes are the transposed tiles), the second those of the second curve")
