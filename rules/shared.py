"""Rows of one property that another property's statement also depends on (filed under a rule of the borrower).

A contour, a joint density or a sampler evaluates the (conditional) distribution functions of the model: a change in the
supporting code of a family (how cdf / icdf / pdf / draw_sample hand their parameters to scipy) breaks the borrower's
statement although none of its own functions changed.  The obligations are the lender's, decided by the lender's rule
parts on the current source; only the rows for the methods the borrower evaluates are filed."""
from vstat.report import Relabel


def template_rows(prog, rep, rule, methods, minimum):
    """C05's rows for ``methods`` (of cdf / icdf / pdf / draw_sample) of every shipped family: the parameter mapping
    (_get_scipy_parameters: paramflow + slots) and the hand-over of exactly that slot tuple to the scipy function."""
    from . import c05
    from .distfam import families

    def keep(r, inst):
        if r in ("C05.paramflow", "C05.slots"):
            return True
        if r == "C05.siblings":
            return any(f".{m}:" in inst for m in methods)
        if r == "C05.generic":
            return "_get_scipy_parameters" in inst or "_list_scipy_parameters" in inst or any(inst.endswith("." + m) for m in methods)
        return False
    sub = Relabel(rep, rule, keep)
    for fam in families(prog, include_generic=True):
        if fam.generic:
            rep.part(c05.generic, prog, sub, fam)
            continue
        rep.part(c05.paramflow, prog, sub, fam)
        rep.part(c05.slots, prog, sub, fam)
        rep.part(c05.siblings, prog, sub, fam)
    rep.expect_min(rule, minimum)
    rep.explanation += (f" {rule}: the rows of C05 for {'/'.join(methods)} of every family - the method hands exactly the slot tuple of "
                        "_get_scipy_parameters (explicit value where given, stored value otherwise, documented slot) to the matching scipy function.")


def conditional_rows(prog, rep, rule, methods, minimum):
    """C08's rows for a conditional distribution: the parameter dict (every name, dependent value at ``given`` or fixed value)
    and the forwarding of ``methods`` to the same-named template method with that dict as keywords."""
    from . import c08

    def keep(r, inst):
        if r == "C08.values":
            return True
        if r == "C08.forward":
            return any(inst.endswith("." + m) or f".{m}:" in inst for m in methods)
        return False
    sub = Relabel(rep, rule, keep)
    rep.part(c08.values, prog, sub)
    rep.part(c08.forward, prog, sub)
    rep.expect_min(rule, minimum)
    rep.explanation += (f" {rule}: the rows of C08 for {'/'.join(methods)} - a conditional distribution passes every parameter "
                        "(dependence value at given, or fixed value) by keyword to the same-named method of its template.")
