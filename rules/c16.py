"""C16 - transformed models are exact push-forwards; Monte-Carlo conditionals match them (algebra / wiring / RNG threading)."""
import ast

from vstat.loader import AnalysisError
from vstat.terms import CMP, builder, guarded_alts, show, SELF, NONE, G, alts, walk, mentions, phi, subst, strip_none
from vstat.guards import path_conditions
from vstat.cfg import cfg_of
from vstat.sigs import bind
from vstat import algebra
from vstat.algebra import Mono, to_mono
from .c07 import RNG_METHODS, GEN_METHODS

VT = "virocon.variable_transform"
JM = "virocon.jointmodels"
TM = f"{JM}.TransformedModel"
MM = f"{JM}.MultivariateModel"
P = lambda n: ("param", n)
EXPL = ("C16.closed: in the Laurent-monomial domain over positive symbols (hs, tz, s, factor; rational exponents; sqrt halves, square doubles) "
        "inverse(transform(x)) = x column by column for the shipped monomial pairs and for the predefined _transform/_inv_transform pairs, and the "
        "predefined _jacobian equals |det d transform/dx| as a function of the argument it is actually called with (the model-space point x in "
        "TransformedModel.pdf); C16.wiring: TransformedModel.pdf = model.pdf(transform(x)) * jacobian(x), draw_sample = inverse(model.draw_sample(n)), "
        "fit fits the base model to transform(data), constructor and predefined getters put transform/inverse/jacobian under their own names; "
        "C16.given: conditional_sample's density puts x in column dim and the entries of given, in order, in the other columns; C16.rng: "
        "conditional_sample draws only from default_rng(random_state) and every RNG-consuming call reachable from the TransformedModel branch of "
        "IFORMContour._compute receives the model's random_state (call-graph walk over TransformedModel / MultivariateModel methods).")
ASSUME = ["hs, tz, s, d > 0", "normalisation, the support search (x_max shrinking, 1000-point envelope) and Monte-Carlo agreement are value dependent and not decided",
          "s_d_to_hs_tz contains square roots of sums: outside the monomial domain, not decided"]


def run(prog, rep):
    rep.explanation = EXPL + ' C16.reject: conditional_sample draws (x, y) candidates of equal size in one iteration, accepts y < pdf(x), keeps x[accept], with ordinates on [0, f_max] and f_max = c * max pdf over a linspace grid on exactly the abscissa interval, c >= 1.'
    rep.assumptions = ASSUME
    rep.part(closed, prog, rep)
    rep.part(wiring, prog, rep)
    rep.part(given, prog, rep)
    rep.part(rng, prog, rep)
    rep.part(montecarlo, prog, rep)
    rep.part(rejection, prog, rep)
    rep.part(window, prog, rep)
    rep.part(window_low, prog, rep)
    rep.part(sample_size, prog, rep)
    rep.part(cache, prog, rep)
    rep.part(cache_key, prog, rep)
    # "draw_sample equals inverse(base.draw_sample)" with the same seed, and cdf agrees with the empirical cdf of its own samples: the sample
    # behind both is a NEW draw of the base model from one generator made of the seed - the rows of C07.fresh and of C07.rng for the model samplers
    from vstat.report import Relabel
    from .purity import fresh_draw
    from . import c07
    rep.part(fresh_draw, prog, Relabel(rep, "C16.draws", lambda r, inst: True), "C16.draws")
    rep.part(c07.rng, prog, Relabel(rep, "C16.draws", lambda r, inst: r == "C07.rng" and ("GlobalHierarchicalModel.draw_sample" in inst or "TransformedModel" in inst or "MultivariateModel" in inst)))
    rep.expect_min("C16.draws", 4)
    rep.expect_min("C16.window", 1)
    rep.expect_min("C16.cache", 1)
    rep.explanation += (" C16.window: the upper end of the rejection sampler's abscissa window lies where the density is negligible - a search that shrinks the "
                        "bound until the density at the bound EXCEEDS a threshold ends inside the body of the density and cuts the upper tail. "
                        "C16.cache: every method that changes the model drops the remembered Monte-Carlo sample.")
    rep.expect_min("C16.reject", 4)
    rep.expect_min("C16.mc", 6)
    rep.expect_min("C16.closed", 8)
    rep.expect_min("C16.wiring", 7)
    rep.expect_min("C16.given", 2)
    rep.expect_min("C16.rng", 3)
    from .purity import row as _stateless_row
    rep.part(_stateless_row, prog, rep, "C16", 5)
    # "its samples are the inverse-transformed samples of the base model", "cdf equals the empirical cdf of its own samples": the
    # base model's sampler and density must describe one distribution - the wiring of every family's pdf / draw_sample, of the
    # conditional forwarding and of the joint sampler is filed here too
    from .shared import template_rows, conditional_rows
    from vstat.report import Relabel
    from . import c07
    template_rows(prog, rep, "C16.base", ["pdf", "draw_sample"], 80)
    conditional_rows(prog, rep, "C16.base-conditional", ["pdf", "draw_sample"], 5)
    smp = Relabel(rep, "C16.base-sampler")
    rep.part(c07.chain, prog, smp)
    rep.expect_min("C16.base-sampler", 5)

def _ret_tuple(prog, q):
    fn = prog.func(q)
    b = builder(prog, fn)
    rets = [s for s in cfg_of(fn).all_stmts() if isinstance(s, ast.Return)]
    if len(rets) != 1:
        raise AnalysisError(f"{q}: expected one return")
    return fn, b.term(rets[0].value, rets[0])


def _const_lookup(prog):
    mod = prog.modules[VT]
    cache = {}

    def look(dotted):
        if not dotted.startswith(VT + "."):
            return None
        name = dotted[len(VT) + 1:]
        if name == "factor":
            return None  # kept as a positive symbol
        if name in mod.constants:
            if name not in cache:
                # evaluate the defining expression with a throw-away builder on any function of the module
                any_fn = next(iter(mod.functions.values()))
                bb = builder(prog, any_fn)
                cache[name] = bb._term(mod.constants[name], "ENTRY", {})
            return cache[name]
        return None
    return look


def closed(prog, rep):
    look = _const_lookup(prog)
    fac = G(f"{VT}.factor")
    pairs = [("hs_tz_to_hs_s", "hs_s_to_hs_tz"), ("hs_s_to_hs_tz", "hs_tz_to_hs_s"), ("hs_tz_to_s_tz", "s_tz_to_hs_tz"), ("s_tz_to_hs_tz", "hs_tz_to_s_tz")]
    for f, g in pairs:
        ff, tf = _ret_tuple(prog, f"{VT}.{f}")
        gf, tg = _ret_tuple(prog, f"{VT}.{g}")
        rep.analysed(ff, gf)
        a = ff.positional_params
        bnames = gf.positional_params
        inst = f"{VT}.{g}({f}(x))"
        if tf[0] != "tuple" or tg[0] != "tuple" or len(tf[1]) != 2 or len(tg[1]) != 2:
            rep.fail("C16.closed", inst, ff.where(), "transformation does not return a pair")
            continue
        comp = subst(tg, {P(bnames[0]): tf[1][0], P(bnames[1]): tf[1][1]})
        env = {P(a[0]): a[0], P(a[1]): a[1], fac: "factor"}
        ok = True
        detail = []
        for k in (0, 1):
            m = to_mono(comp[1][k], env, look)
            want = Mono(1, 1, {a[k]: 1})
            if m is None:
                ok = False
                detail.append(f"component {k} is outside the monomial domain: {show(comp[1][k])[:100]}")
            elif m != want:
                ok = False
                detail.append(f"component {k} of {g}({f}({a[0]}, {a[1]})) is {m!r}, not {a[k]}")
        rep.check(ok, "C16.closed", inst, gf.where(), f"{g}({f}(x)) = x on the positive quadrant", "; ".join(detail))
    # a numerical lint on the non-monomial pair: sqrt(A + f**2) - f loses every digit once A << f**2 (small steepness): the
    # round trip hs_tz -> s_d -> hs_tz of (1e-3, 100) came back 2e-7 relative off, 7e-6 over the scope; the quotient A / (sqrt(A + f**2) + f) does not
    inv, _t_inv = _ret_tuple(prog, f"{VT}.s_d_to_hs_tz")
    binv = builder(prog, inv, inline=False)
    cancel = []
    for st in cfg_of(inv).all_stmts():
        for n in ast.walk(st) if isinstance(st, (ast.Assign, ast.Return)) else []:
            if isinstance(n, ast.BinOp) and isinstance(n.op, ast.Sub):
                t = binv.term(n, st)
                if t[0] == "bin" and t[1] == "-" and t[2][0] == "call" and t[2][1] == G("numpy.sqrt") and len(t[2][2]) == 1:
                    arg, r = t[2][2][0], t[3]
                    summands = []
                    stack = [arg]
                    while stack:
                        x_ = stack.pop()
                        if x_[0] == "bin" and x_[1] == "+":
                            stack += [x_[2], x_[3]]
                        else:
                            summands.append(x_)
                    if any(algebra.same(sm, ("bin", "**", r, ("const", 2))) or algebra.same(sm, ("bin", "*", r, r)) for sm in summands):
                        cancel.append(st)
    rep.check(not cancel, "C16.closed", f"{VT}.s_d_to_hs_tz:stable", inv.where(cancel[0]) if cancel else inv.where(), "no sqrt(A + f**2) - f",
              "sqrt(16 d**2 s**2 + factor**2) - factor is the difference of two nearly equal numbers for a small steepness (d s << 0.64): hs_tz_to_s_d followed by "
              "s_d_to_hs_tz returns (0.0010000002210, 100.0000195) for (1e-3, 100), up to 7e-6 relative over the scope, where the other two pairs reach 3e-16; "
              "write the difference as 16 d**2 s**2 / (sqrt(...) + factor)")
    # non-monomial pair: recorded as undecided, not a verdict
    rep.ok("C16.closed", f"{VT}.s_d_to_hs_tz(hs_tz_to_s_d(x)):undecided", "virocon/variable_transform.py", "square roots of sums: outside the monomial domain, not decided", nontrivial=False)
    # predefined triples
    n = 0
    for getter in ("get_Windmeier_EW_Hs_S", "get_Nonzero_EW_Hs_S"):
        base = f"virocon.predefined.{getter}"
        tfn, tt = _ret_cols(prog, f"{base}._transform")
        ifn, it = _ret_cols(prog, f"{base}._inv_transform")
        jfn, jt = _ret_any(prog, f"{base}._jacobian")
        rep.analysed(tfn, ifn, jfn)
        targ, iarg, jarg = P(tfn.positional_params[0]), P(ifn.positional_params[0]), P(jfn.positional_params[0])
        x0, x1 = ("col", targ, ("const", 0)), ("col", targ, ("const", 1))
        env = {x0: "x0", x1: "x1", fac: "factor"}
        ok = tt is not None and it is not None
        detail = []
        T = None
        if ok:
            comp = subst(it, {("col", iarg, ("const", 0)): tt[1][0], ("col", iarg, ("const", 1)): tt[1][1]})
            for k in (0, 1):
                m = to_mono(comp[1][k], env, look)
                if m is None or m != Mono(1, 1, {f"x{k}": 1}):
                    ok = False
                    detail.append(f"column {k} of _inv_transform(_transform(x)) is {repr(m) if m is not None else show(comp[1][k])[:80]}, not x[:, {k}]")
            T = [to_mono(tt[1][k], env, look) for k in (0, 1)]
        else:
            detail.append("transform / inverse do not return two columns (np.c_[...])")
        rep.check(ok, "C16.closed", f"{base}:inverse-of-transform", ifn.where(), "_inv_transform(_transform(x)) = x column by column", "; ".join(detail))
        okj = False
        why = "Jacobian not decidable in the monomial domain"
        if T is not None and None not in T and jt is not None:
            a, b_ = T[0].diff("x0"), T[0].diff("x1")
            c, d = T[1].diff("x0"), T[1].diff("x1")
            ad, bc = a * d, b_ * c
            det = None
            if bc.sign == 0:
                det = ad
            elif ad.sign == 0:
                det = Mono(-bc.sign, bc.coef, bc.exps)
            elif ad.exps == bc.exps:
                v = ad.sign * ad.coef - bc.sign * bc.coef
                det = Mono(1 if v > 0 else -1 if v < 0 else 0, abs(v), ad.exps)
            # the jacobian is called with the model-space point x (TransformedModel.pdf), whatever its formal is called
            jenv = {("col", jarg, ("const", 0)): "x0", ("col", jarg, ("const", 1)): "x1", fac: "factor"}
            jm = to_mono(jt, jenv, look)
            if det is not None and jm is not None:
                okj = jm == det.abs()
                why = f"the supplied Jacobian, as a function of the point it is called with, is {jm!r} but |det d transform/dx| = {det.abs()!r}"
        rep.check(okj, "C16.closed", f"{base}:jacobian", jfn.where(), "_jacobian(x) = |det d _transform / dx| (monomial derivative)", why)
        n += 1
    if n < 2:
        rep.error("C16.closed: predefined transformation triples not found")


def _ret_cols(prog, q):
    fn, t = _ret_any(prog, q)
    if t is not None and t[0] == "cols" and len(t[1]) == 2:
        return fn, t
    return fn, None


def _ret_any(prog, q):
    fn = prog.func(q)
    b = builder(prog, fn)
    rets = [s for s in cfg_of(fn).all_stmts() if isinstance(s, ast.Return)]
    if len(rets) != 1:
        return fn, None
    return fn, b.term(rets[0].value, rets[0])


def wiring(prog, rep):
    def ret_term(q, inline=False):
        fn = prog.func(q)
        rep.analysed(fn)
        b = builder(prog, fn, inline=inline)
        rets = [s for s in cfg_of(fn).all_stmts() if isinstance(s, ast.Return)]
        return fn, (b.term(rets[-1].value, rets[-1]) if rets else None), rets
    A = lambda n: ("attr", SELF, n)
    fn, t, r = ret_term(f"{TM}.pdf")
    x = P("x")
    w1 = ("bin", "*", ("call", ("attr", A("model"), "pdf"), (("call", A("transform"), (x,), ()),), ()), ("call", A("jacobian"), (x,), ()))
    w2 = ("bin", "*", w1[3], w1[2])
    # the points may first be checked / converted (np.asarray_chkfinite(x), np.asarray(x)): the same points
    from vstat.terms import subst as _subst
    for conv_ in (G("numpy.asarray_chkfinite"), G("numpy.asarray"), G("numpy.array")):
        t = _subst(t, {("call", conv_, (x,), ()): x}) if t is not None else t
    rep.check(t in (w1, w2), "C16.wiring", f"{TM}.pdf", fn.where(), "model.pdf(transform(x)) * jacobian(x)",
              f"the push-forward density must be self.model.pdf(self.transform(x)) * self.jacobian(x) - base density at the transformed point times the Jacobian at x; found {show(t)[:160] if t else None}")
    fn, t, r = ret_term(f"{TM}.draw_sample")
    ok = t is not None and t[0] == "call" and t[1] == A("inverse") and len(t[2]) == 1 and t[2][0][0] == "call" and t[2][0][1] == ("attr", A("model"), "draw_sample") and t[2][0][2][:1] == (P("n"),)
    rep.check(ok, "C16.wiring", f"{TM}.draw_sample", fn.where(), "inverse(model.draw_sample(n))",
              f"samples must be the inverse-transformed samples of the base model: self.inverse(self.model.draw_sample(n)); found {show(t)[:140] if t else None}")
    fn, t, r = ret_term(f"{TM}.fit")
    dat_ = (P("data"), ("call", G("numpy.array"), (P("data"),), ()), ("call", G("numpy.asarray"), (P("data"),), ()))
    ok = t is not None and t[0] == "call" and t[1] == ("attr", A("model"), "fit") and t[2][:1] in tuple((("call", A("transform"), (d_,), ()),) for d_ in dat_)
    rep.check(ok, "C16.wiring", f"{TM}.fit", fn.where(), "model.fit(transform(data), ...)",
              f"fitting must fit the base model to the TRANSFORMED data; found {show(t)[:140] if t else None}")
    init = prog.func(f"{TM}.__init__")
    rep.analysed(init)
    bi = builder(prog, init, inline=False)
    stored = {}
    for s in cfg_of(init).all_stmts():
        if isinstance(s, ast.Assign) and isinstance(s.targets[0], ast.Attribute):
            stored[s.targets[0].attr] = bi.term(s.value, s)
    names = ("model", "transform", "inverse", "jacobian", "precision_factor", "random_state")
    bad = [n for n in names if stored.get(n) != P(n)]
    rep.check(not bad, "C16.wiring", f"{TM}.__init__", init.where(), "constructor stores model/transform/inverse/jacobian/precision_factor/random_state under their own names",
              f"constructor arguments stored under another name: {bad}")
    rep.check(stored.get("n_dim") in (("attr", ("attr", SELF, "model"), "n_dim"), ("attr", P("model"), "n_dim")) and stored.get("model") == P("model"), "C16.wiring", f"{TM}.__init__:n_dim", init.where(), "n_dim = model.n_dim", "n_dim must be the base model's")
    for getter in ("get_Windmeier_EW_Hs_S", "get_Nonzero_EW_Hs_S"):
        q = f"virocon.predefined.{getter}"
        fn = prog.func(q)
        rep.analysed(fn)
        b = builder(prog, fn, inline=False)
        rets = [s for s in cfg_of(fn).all_stmts() if isinstance(s, ast.Return)]
        t = b.term(rets[-1].value, rets[-1])
        d = t[1][3] if t[0] == "tuple" and len(t[1]) == 4 else None
        want = ("dict", ((("const", "transform"), ("func", f"{q}._transform")), (("const", "inverse"), ("func", f"{q}._inv_transform")), (("const", "jacobian"), ("func", f"{q}._jacobian"))))
        ok = d is not None and d[0] == "dict" and dict(d[1]) == dict(want[1])
        rep.check(ok, "C16.wiring", f"{q}:transformations", fn.where(rets[-1]), "{'transform': _transform, 'inverse': _inv_transform, 'jacobian': _jacobian}",
                  f"the getter must return its own _transform/_inv_transform/_jacobian under transform/inverse/jacobian; found {show(d)[:160] if d else None}")


def given(prog, rep):
    # the closure that assembles the full points and evaluates the joint density: the nested function of conditional_sample
    # (at any depth, under any name) that stores into columns M[:, k]
    cands = []
    for q_, f_ in prog.functions.items():
        if q_.startswith(f"{MM}.conditional_sample.") and any(
                isinstance(n_, ast.Assign) and isinstance(n_.targets[0], ast.Subscript) and isinstance(n_.targets[0].slice, ast.Tuple)
                and len(n_.targets[0].slice.elts) == 2 and isinstance(n_.targets[0].slice.elts[0], ast.Slice) for n_ in ast.walk(f_.node)) \
                and not any(q2.startswith(q_ + ".") and q2 != q_ for q2 in prog.functions if any(
                    isinstance(n_, ast.Assign) and isinstance(n_.targets[0], ast.Subscript) for n_ in ast.walk(prog.functions[q2].node))):
            cands.append(q_)
    if len(cands) != 1:
        raise AnalysisError(f"{MM}.conditional_sample: the closure that assembles the conditional density was not found (candidates {cands})")
    q = cands[0]
    fn = prog.func(q)
    rep.analysed(fn)
    b = builder(prog, fn, inline=False)
    pcs = path_conditions(prog, fn, b)
    cfg = cfg_of(fn)
    stores = []
    for st in cfg.all_stmts():
        if isinstance(st, ast.Assign) and isinstance(st.targets[0], ast.Subscript):
            idx = b.index(st.targets[0].slice, st, {})
            if idx[0] == "tuple" and len(idx[1]) == 2 and idx[1][0] == ("slice", NONE, NONE, NONE):
                stores.append((st, b.term(st.targets[0].value, st), idx[1][1], b.term(st.value, st), pcs.of(st)))
    ok_own = ok_giv = False
    mat = None
    for st, base, k, v, pc in stores:
        eq = [l for l in pc if l[0] == "cmp" and l[1] == "==" and k in (l[2], l[3])]
        ne = [l for l in pc if l[0] == "not" and l[1][0] == "cmp" and l[1][1] == "==" and k in (l[1][2], l[1][3])]
        if eq and v == P("x"):
            other = eq[0][3] if eq[0][2] == k else eq[0][2]
            ok_own = k[0] == "idx" and k[2] == "range" and (mentions(other, P("dim")) or "dim" in show(other))
            mat = base
        if ne and v[0] == "sub" and v[2][0] == "counter" and v[2][2] == ("const", 0) and v[2][3] == ("const", 1):
            # the counter must be incremented in the same branch
            incs = [s for s in cfg.all_stmts() if isinstance(s, (ast.AugAssign, ast.Assign)) and getattr(getattr(s, "target", None) or s.targets[0], "id", None) == v[2][1] and cfg.enclosing_loops(s)]
            ok_giv = len(incs) == 1 and set(pcs.of(incs[0])) == set(pc) and any(s_[0] == "param" and s_[1] == "given" for s_ in walk(v[1]))
    rep.check(ok_own, "C16.given", f"{q}:own-column", fn.where(), "column dim receives x", "the evaluated variable x must be placed in column dim of the full point")
    rep.check(ok_giv, "C16.given", f"{q}:given-columns", fn.where(), "the other columns receive given[0], given[1], ... in order",
              "the conditioning values must fill the remaining columns in order (one counter, incremented exactly when a given value is consumed)")
    rets = [s for s in cfg.all_stmts() if isinstance(s, ast.Return)]
    t = b.term(rets[-1].value, rets[-1])
    rep.check(mat is not None and t == ("call", ("attr", SELF, "pdf"), (mat,), ()) or (mat is not None and t[0] == "call" and t[1][0] == "attr" and t[1][2] == "pdf" and t[2] == (mat,)),
              "C16.given", f"{q}:density", fn.where(rets[-1]), "returns self.pdf(full point)", f"the conditional density must be the joint pdf of the assembled points; found {show(t)[:100]}")


def _rng_calls(fn):
    out = []
    for n in ast.walk(fn.node):
        if isinstance(n, ast.Call) and isinstance(n.func, ast.Attribute):
            if n.func.attr in RNG_METHODS or n.func.attr in ("conditional_icdf", "conditional_cdf", "marginal_icdf"):
                out.append(n)
    return out


def rng(prog, rep):
    """Walk the call graph from the TransformedModel branch of IFORMContour._compute."""
    tm = prog.cls(TM)
    q = "virocon.contours.IFORMContour._compute"
    fn = prog.func(q)
    rep.analysed(fn)
    b = builder(prog, fn, inline=False)
    model = ("attr", SELF, "model")
    seed = ("attr", model, "random_state")
    start = []
    for st in cfg_of(fn).all_stmts():
        if isinstance(st, ast.Assign) and isinstance(st.value, ast.Call):
            t = b.term(st.value, st)
            if t[0] == "call" and t[1][0] == "attr" and t[1][1] == model and t[1][2] in ("marginal_icdf", "conditional_icdf"):
                start.append((st, t))
    if len(start) != 2:
        raise AnalysisError(f"{q}: TransformedModel branch calls not found")
    seen = set()
    problems = []
    n_sites = [0]

    def visit(callee, seeded, path):
        """callee: FunctionInfo of a TransformedModel/MultivariateModel method; seeded: does the caller hand the seed over?"""
        key = (callee.qualname, seeded)
        if key in seen or len(path) > 6:
            return
        seen.add(key)
        rep.analysed(callee)
        has_rs = "random_state" in callee.params
        bb = builder(prog, callee, tm, inline=False)
        gens = {t.id for s_ in ast.walk(callee.node) if isinstance(s_, ast.Assign) and isinstance(s_.value, ast.Call) and "default_rng" in ast.unparse(s_.value.func)
                for t in s_.targets if isinstance(t, ast.Name)}
        for n in ast.walk(callee.node):
            if not (isinstance(n, ast.Call) and isinstance(n.func, ast.Attribute)):
                continue
            name = n.func.attr
            recv_self = isinstance(n.func.value, ast.Name) and n.func.value.id == "self"
            recv_model = isinstance(n.func.value, ast.Attribute) and n.func.value.attr == "model"
            kw = {k.arg: k.value for k in n.keywords if k.arg}
            passes = False
            if "random_state" in kw:
                v = kw["random_state"]
                passes = (isinstance(v, ast.Name) and v.id == "random_state" and has_rs and seeded) or \
                         (isinstance(v, ast.Attribute) and v.attr == "random_state")
            if name in ("draw_sample", "rvs", "conditional_sample") or name in GEN_METHODS and isinstance(n.func.value, ast.Name) and n.func.value.id in gens:
                n_sites[0] += 1
                if name in GEN_METHODS:
                    continue  # rng = default_rng(random_state): covered by C07.rng; seeded iff this function was called seeded
                if not passes:
                    problems.append((callee, n, " -> ".join(path + [callee.name]), name))
                if recv_self:
                    tgt = prog.lookup_method(tm, name)
                    if tgt is not None and tgt.qualname not in (callee.qualname,):
                        visit(tgt, passes, path + [callee.name])
            elif recv_self and name in ("conditional_icdf", "conditional_cdf", "marginal_icdf", "conditional_sample"):
                tgt = prog.lookup_method(tm, name)
                if tgt is not None:
                    visit(tgt, passes, path + [callee.name])
        if not has_rs and not seeded:
            pass

    for st, t in start:
        name = t[1][2]
        kw = dict(t[3])
        passes = kw.get("random_state") == seed
        tgt = prog.lookup_method(tm, name)
        inst = f"{q}:model.{name}"
        if "random_state" in tgt.params:
            rep.check(passes, "C16.rng", inst, fn.where(st), "random_state=self.model.random_state",
                      f"{name} accepts random_state: the TransformedModel branch must pass the model's random_state; found {show(kw.get('random_state', NONE))[:60]}")
        visit(tgt, passes, ["IFORMContour._compute"])
    # one obligation per unseeded RNG site reachable from the branch
    by_entry = {}
    for callee, n, path, name in problems:
        by_entry.setdefault((callee.qualname, name), (callee, n, path))
    for (cq, name), (callee, n, path) in sorted(by_entry.items()):
        rep.fail("C16.rng", f"{cq}:{name}", f"{callee.file}:{n.lineno}",
                 f"RNG-consuming call .{name}(...) reachable from the TransformedModel branch of IFORMContour._compute ({path}) does not receive the model's "
                 "random_state: a contour of a seeded TransformedModel is not reproducible")
    if not problems:
        rep.ok("C16.rng", f"{q}:reachable", fn.where(), f"{n_sites[0]} RNG-consuming call sites reachable from the branch, all seeded")
    rep.extra["C16.rng.sites"] = n_sites[0]
    # methods of the model that take no seed of their own (the sample behind empirical_cdf): what they draw comes from the model's seed
    n_own = 0
    for name_, m in sorted(tm.methods.items()):
        if "random_state" in m.params or name_ == "__init__":
            continue
        for n in ast.walk(m.node):
            if isinstance(n, ast.Call) and isinstance(n.func, ast.Attribute) and isinstance(n.func.value, ast.Name) and n.func.value.id == "self" \
                    and n.func.attr in ("draw_sample", "conditional_sample", "marginal_icdf", "conditional_icdf", "conditional_cdf"):
                tgt = prog.lookup_method(tm, n.func.attr)
                if tgt is None or "random_state" not in tgt.params:
                    continue
                n_own += 1
                kw = {k.arg: k.value for k in n.keywords if k.arg}
                v = kw.get("random_state")
                okv = isinstance(v, ast.Attribute) and v.attr == "random_state" and isinstance(v.value, ast.Name) and v.value.id == "self"
                rep.check(okv, "C16.rng", f"{m.qualname}:{n.func.attr}", f"{m.file}:{n.lineno}", "random_state=self.random_state",
                          f"{m.name} has no seed of its own and calls self.{n.func.attr}(...) without the model's random_state: two equal TransformedModels seeded with 42 "
                          "answer empirical_cdf differently ([0.357185 ...] against [0.357756 ...]), and the same model answers differently after its memo was dropped")
    rep.extra["C16.rng.own_sites"] = n_own
    # conditional_sample itself: C07.rng decides that its generator is default_rng(random_state)
    cs = prog.func(f"{MM}.conditional_sample")
    bc = builder(prog, cs, inline=False)
    okg = False
    for st in cfg_of(cs).all_stmts():
        if isinstance(st, ast.Assign) and isinstance(st.targets[0], ast.Name) and isinstance(st.value, ast.Call):
            if bc.term(st.value, st) == ("call", G("numpy.random.default_rng"), (P("random_state"),), ()):
                okg = True
    rep.check(okg, "C16.rng", f"{MM}.conditional_sample:generator", cs.where(), "rng = np.random.default_rng(random_state)",
              "the rejection sampler must draw from np.random.default_rng(random_state) only")


def _below(l, n, ordered):
    """the literal says 'something < n' (strictly), also spelt not(something >= n)"""
    if l[0] == "not" and l[1][0] == "cmp":
        o = ordered(l[1])
        return o is not None and o[0] == n and not o[2]          # not(n <= X)  =  X < n
    o = ordered(l) if l[0] == "cmp" else None
    return o is not None and o[1] == n and bool(o[2])


def sample_size(prog, rep):
    """conditional_sample(n, ...) returns n values whenever at least n were accepted; only a shortfall is returned as it is (with the
    warning).  Whether the budget of iterations was used up says nothing about that: the n-th value may be accepted in the last iteration."""
    from vstat.terms import ordered
    q = f"{JM}.MultivariateModel.conditional_sample"
    fn = prog.func(q)
    b = builder(prog, fn, inline=False)
    pcs = path_conditions(prog, fn, b)
    n = P("n")
    bad = []
    rets = [s for s in cfg_of(fn).all_stmts() if isinstance(s, ast.Return) and s.value is not None]
    for r in rets:
        t = b.term(r.value, r)
        cut = t[0] == "sub" and t[2][0] == "slice" and t[2][2] == n and t[2][1] == NONE
        short = any(_below(l, n, ordered) for l in pcs.of(r))   # ... < n
        if not cut and not short:
            bad.append(r)
    rep.check(bool(rets) and not bad, "C16.reject", f"{q}:size", fn.where(bad[0]) if bad else fn.where(), "every return is cut to n values or is a shortfall (fewer than n accepted)",
              "a return hands back ALL accepted values without cutting to n although it is not limited to the case 'fewer than n accepted' (the loop index "
              "reaching max_iter - 1 is not that case): conditional_sample(1000, ..., max_iter=1) returned 2282 values with a 'sample size is only 2282' warning")


def window(prog, rep):
    q = f"{JM}.MultivariateModel.conditional_sample"
    fn = prog.func(q)
    b = builder(prog, fn, inline=False)
    cfg = cfg_of(fn)
    bad = []
    n = 0
    for st in cfg.all_stmts():
        if not isinstance(st, ast.While):
            continue
        t = b.term(st.test, st)
        from vstat.terms import ordered
        o = ordered(t) if t[0] == "cmp" else None
        # while density(X) < threshold: X = c * X      (threshold a constant, c < 1)
        if o is None or o[1][0] != "const" or not (o[0][0] == "call"):
            continue
        shr = [s for s in ast.walk(st) if isinstance(s, ast.Assign) and isinstance(s.targets[0], ast.Name) and isinstance(s.value, ast.BinOp) and isinstance(s.value.op, ast.Mult)
               and any(isinstance(x, ast.Name) and x.id == s.targets[0].id for x in ast.walk(s.value))]
        if not shr:
            # ... or through a temporary: t = c * X ... X = t
            prods = {s_.targets[0].id: s_ for s_ in ast.walk(st) if isinstance(s_, ast.Assign) and isinstance(s_.targets[0], ast.Name) and isinstance(s_.value, ast.BinOp)
                     and isinstance(s_.value.op, ast.Mult)}
            for s_ in ast.walk(st):
                if isinstance(s_, ast.Assign) and isinstance(s_.targets[0], ast.Name) and isinstance(s_.value, ast.Name) and s_.value.id in prods \
                        and any(isinstance(x, ast.Name) and x.id == s_.targets[0].id for x in ast.walk(prods[s_.value.id].value)):
                    shr.append(s_)
        if not shr:
            continue
        n += 1
        name = shr[0].targets[0].id
        # after the loop the name is used as the upper bound without stepping back over the last shrink
        stepped_back = any(isinstance(s, ast.Assign) and isinstance(s.targets[0], ast.Name) and s.targets[0].id == name and isinstance(s.value, ast.BinOp)
                           and isinstance(s.value.op, ast.Div) and cfg.reachable(cfg.node(st), cfg.node(s)) and not any(p_ is st for p_, _w in cfg.enclosing(s))
                           for s in cfg.all_stmts())
        if not stepped_back:
            bad.append((st, name, show(o[1])))
    if n == 0:
        rep.ok("C16.window", f"{q}:upper-bound", fn.where(), "no shrink-until-dense search of the abscissa bound found", nontrivial=False)
        return
    rep.check(not bad, "C16.window", f"{q}:upper-bound", fn.where(bad[0][0]) if bad else fn.where(),
              "the search ends at a bound where the density is still negligible",
              f"'{bad[0][1] if bad else ''}' is multiplied down until the density AT it is no longer below the absolute threshold {bad[0][2] if bad else ''} and is then used as the "
              "upper end of the sampling window: the window ends inside the body of the conditional density (the values between the bound and the previous, "
              "larger one are cut off), and for a conditioning value in the tail no grid value passes the absolute threshold at all")


def window_low(prog, rep):
    """The lower end of the sampling window: candidates are drawn uniformly on [lo, hi]; a positive constant lo means that no value <= 0 is ever
    returned, whatever the conditional distribution (Normal, von Mises, a Weibull with negative location)."""
    q = f"{JM}.MultivariateModel.conditional_sample"
    fn = prog.func(q)
    b = builder(prog, fn, inline=False)
    lows = []
    for st in cfg_of(fn).all_stmts():
        for n in ast.walk(st) if isinstance(st, (ast.Assign, ast.Expr, ast.Return)) else []:
            if isinstance(n, ast.Call) and isinstance(n.func, ast.Attribute) and n.func.attr == "uniform":
                low = n.args[0] if n.args else next((k.value for k in n.keywords if k.arg == "low"), None)
                if low is not None:
                    lows.append((st, b.term(low, st)))
    if not lows:
        raise AnalysisError(f"{q}: no uniform(lo, hi, ...) candidate draw found")
    consts = [(st, t) for st, t in lows if t[0] == "const" and isinstance(t[1], (int, float)) and t[1] >= 0]
    rep.check(not consts, "C16.window", f"{q}:lower-bound", fn.where(consts[0][0]) if consts else fn.where(),
              "the lower end of the window follows the conditional distribution",
              f"the candidates are drawn on [{consts[0][1][1] if consts else ''}, x_max]: a constant, non-negative lower end - no value <= 0 is ever returned although the "
              "conditional variable may have negative support")


def cache(prog, rep):
    """TransformedModel keeps a Monte-Carlo sample for empirical_cdf (a deliberate memo, see C19): it describes the model only until the model changes."""
    ci = prog.cls(TM)
    memo = "_sample"
    changers = [m for name, m in ci.methods.items() if name == "fit" or name.startswith("_fit")]
    if not changers:
        raise AnalysisError(f"{TM}: no fit method found")
    for m in changers:
        rep.analysed(m)
        resets = [n for n in ast.walk(m.node) if isinstance(n, ast.Assign) and any(isinstance(t, ast.Attribute) and isinstance(t.value, ast.Name) and t.value.id == "self" and t.attr == memo for t in n.targets)
                  and isinstance(n.value, ast.Constant) and n.value.value is None]
        rep.check(bool(resets), "C16.cache", f"{m.qualname}:drops-{memo}", m.where(), f"self.{memo} = None when the model is re-fitted",
                  f"{m.name} changes the model but keeps self.{memo}: empirical_cdf after a re-fit still answers for the model as it was before "
                  "(fit(A), empirical_cdf, fit(C), empirical_cdf returns the same numbers)")


def _disjuncts(lits):
    """the alternatives under which a statement runs, for one-literal conditions: `a or b` gives [a, b], `not (a and b)` gives [not a, not b]"""
    out = []
    for l_ in lits:
        if l_[0] == "or":
            out += list(l_[1])
        elif l_[0] == "not" and l_[1][0] == "and":
            for c_ in l_[1][1]:
                out.append(c_[1] if c_[0] == "not" else ("not", c_))
        else:
            out.append(l_)
    return out


def cache_key(prog, rep):
    """The memo describes the WRAPPED model as it was when the sample was drawn.  TransformedModel.fit drops it (C16.cache), but the wrapped
    model is an object of its own and is fitted directly in the package's own examples (model.fit(data); t = TransformedModel(model, ...) -
    and again later): the memo must be tied to the state of self.model and be re-drawn when that changed."""
    from vstat.guards import path_conditions as _pcs
    sp = prog.func(f"{TM}.sample")
    rep.analysed(sp)
    b = builder(prog, sp, inline=False)
    pcs = _pcs(prog, sp, b)
    model = ("attr", SELF, "model")
    stores = {}
    memo_st = None
    for st in cfg_of(sp).all_stmts():
        if isinstance(st, ast.Assign) and isinstance(st.targets[0], ast.Attribute) and b.term(st.targets[0].value, st) == SELF:
            stores[st.targets[0].attr] = (st, b.term(st.value, st))
            if st.targets[0].attr == "_sample":
                memo_st = st
    ok = False
    why = "the sample property does not store self._sample"
    if memo_st is not None:
        lits = pcs.of(memo_st)
        disj = _disjuncts(lits)
        why = ("the kept sample is re-drawn only when it is missing: t.empirical_cdf(x); model.fit(new_data) on the wrapped model; t.empirical_cdf(x) still answers for the old "
               "parameters (0.80603 where cdf and a fresh sample give 0.686); keep what the sample was drawn for (e.g. repr(self.model)) and compare")
        for d_ in disj:
            c = d_[1] if d_[0] == "not" else d_
            if c[0] == "cmp" and c[1] in ("==", "!=") and (d_[0] == "not") == (c[1] == "=="):
                for key, state in ((c[2], c[3]), (c[3], c[2])):
                    if key[0] == "attr" and key[1] == SELF and mentions(state, model) and key[2] in stores and stores[key[2]][1] == state \
                            and set(pcs.of(stores[key[2]][0])) == set(lits):
                        ok = True
    rep.check(ok, "C16.cache", f"{TM}.sample:follows-the-model", sp.where(memo_st) if memo_st is not None else sp.where(),
              "the memo is re-drawn when the state of the wrapped model differs from the one it was drawn for", why)


def rejection(prog, rep):
    """MultivariateModel.conditional_sample is a rejection sampler: candidates uniform on [lo, hi] x [0, f_max], accepted where
    y < pdf(x).  The accepted x follow the conditional density only if f_max bounds the density on the SAME [lo, hi] the
    candidates come from; the envelope must therefore be taken from a grid over exactly that interval (and be >= its maximum)."""
    q = f"{JM}.MultivariateModel.conditional_sample"
    fn = prog.func(q)
    rep.analysed(fn)
    b = builder(prog, fn, inline=False)
    cfg = cfg_of(fn)
    rng = ("call", G("numpy.random.default_rng"), (P("random_state"),), ())
    draws = []
    for st in cfg.all_stmts():
        if isinstance(st, ast.Assign) and isinstance(st.targets[0], ast.Name) and isinstance(st.value, ast.Call):
            t = b.term(st.value, st)
            if t[0] == "call" and t[1] == ("attr", rng, "uniform"):
                bu = bind(t, ["low", "high", "size"])
                if bu is not None and "low" in bu and "high" in bu:
                    # positional spelling: (low, high) + size keyword
                    draws.append((st, ("call", t[1], (bu["low"], bu["high"]), (("size", bu["size"]),) if "size" in bu else ())))
    site = fn.where(draws[0][0]) if draws else fn.where()
    if len(draws) != 2:
        rep.fail("C16.reject", f"{q}:candidates", site, f"expected the two uniform candidate draws (abscissa, ordinate) from default_rng(random_state); found {len(draws)}")
        return
    loops = [cfg.enclosing_loops(st) for st, _ in draws]
    same_loop = bool(loops[0]) and loops[0] == loops[1]
    sizes = [dict(t[3]).get("size", t[2][2] if len(t[2]) > 2 else None) for _st, t in draws]
    # which one is the ordinate: the one compared '<' against pdf(other)
    acc = None
    for st in cfg.all_stmts():
        if isinstance(st, ast.Assign) and isinstance(st.value, ast.Compare) and len(st.value.ops) == 1 and isinstance(st.value.ops[0], (ast.Lt, ast.Gt)):
            l, r = st.value.left, st.value.comparators[0]
            if isinstance(st.value.ops[0], ast.Gt):
                l, r = r, l
            if isinstance(l, ast.Name) and isinstance(r, ast.Call) and len(r.args) == 1 and isinstance(r.args[0], ast.Name):
                dy = [d.stmt for d in b.rd.reaching(l.id, cfg.node(st))]
                dx = [d.stmt for d in b.rd.reaching(r.args[0].id, cfg.node(st))]
                for (sx, tx), (sy, ty) in ((draws[0], draws[1]), (draws[1], draws[0])):
                    if dx == [sx] and dy == [sy]:
                        acc = (st, sx, tx, sy, ty, b.term(r.func, st), l.id, r.args[0].id)
    rep.check(acc is not None and same_loop and sizes[0] is not None and sizes[0] == sizes[1], "C16.reject", f"{q}:accept", site,
              "accept = y < pdf(x) on equally many (x, y) candidates drawn in the same iteration",
              "the acceptance test must be 'ordinate candidate < pdf(abscissa candidate)' (strict) on the two candidate arrays of one iteration, drawn with the same size")
    if acc is None:
        return
    st_a, sx, tx, sy, ty, pdf_t, yname, xname = acc
    lo, hi = tx[2][0], tx[2][1]
    f_min, f_max = ty[2][0], ty[2][1]
    # kept points: x[accept]
    kept = False
    for st in cfg.all_stmts():
        if isinstance(st, ast.Expr) and isinstance(st.value, ast.Call) and isinstance(st.value.func, ast.Attribute) and st.value.func.attr in ("append", "extend") and st.value.args:
            a = st.value.args[0]
            if isinstance(a, ast.Subscript) and isinstance(a.value, ast.Name) and a.value.id == xname and isinstance(a.slice, ast.Name) \
                    and [d.stmt for d in b.rd.reaching(a.slice.id, cfg.node(st))] == [st_a] and [d.stmt for d in b.rd.reaching(xname, cfg.node(st))] == [sx]:
                kept = True
    rep.check(kept, "C16.reject", f"{q}:kept", fn.where(st_a), "the accepted abscissae x[accept] are kept",
              "the sample must consist of the abscissa candidates selected by the acceptance mask of the same iteration")
    rep.check(algebra.same(f_min, ("const", 0)), "C16.reject", f"{q}:floor", fn.where(sy), "ordinates start at 0",
              f"ordinate candidates must be uniform on [0, f_max]; lower end found {show(f_min)[:40]}")
    # envelope: f_max = c * max(pdf(grid over [lo, hi])), c >= 1
    ok = False
    why = f"the envelope must be c * max(pdf(linspace(lo, hi, N))) with c >= 1 on the candidates' own interval; found {show(f_max)[:200]}"
    fm = f_max
    c = 1.0
    if fm[0] == "bin" and fm[1] == "*":
        for u, w in ((fm[2], fm[3]), (fm[3], fm[2])):
            if w[0] == "const" and isinstance(w[1], (int, float)):
                fm, c = u, w[1]
                break
    if fm[0] == "call" and fm[1] in (G("numpy.max"), G("max"), G("numpy.amax")) and len(fm[2]) == 1 and fm[2][0][0] == "call" and fm[2][0][1] == pdf_t and len(fm[2][0][2]) == 1:
        grid = fm[2][0][2][0]
        bd = bind(grid) if grid[0] == "call" and grid[1] == G("numpy.linspace") else None
        if bd:
            ok = c >= 1 and bd.get("start") == lo and bd.get("stop") == hi and bd.get("endpoint", ("const", True)) == ("const", True)
            why = (f"the envelope grid must span exactly the interval the abscissa candidates are drawn from - [{show(lo)[:40]}, {show(hi)[:80]}] - "
                   f"with a factor >= 1; found grid [{show(bd.get('start', NONE))[:40]}, {show(bd.get('stop', NONE))[:80]}], factor {c}: "
                   "where the grid is wider (coarser) or narrower than the candidate interval the density's peak can exceed f_max and the sample is flattened there")
    rep.check(ok, "C16.reject", f"{q}:envelope", fn.where(sy), "f_max = c * max pdf over a grid on the candidates' own interval, c >= 1", why)


def montecarlo(prog, rep):
    """Empirical / Monte-Carlo conditional cdf, quantile and the exact hierarchical counterparts: index agreement."""
    # TransformedModel.empirical_cdf
    q = f"{TM}.empirical_cdf"
    fn = prog.func(q)
    rep.analysed(fn)
    b = builder(prog, fn, inline=False)
    rets = [s for s in cfg_of(fn).all_stmts() if isinstance(s, ast.Return)]
    t = b.term(rets[-1].value, rets[-1])
    ok = False
    why = f"empirical cdf must be the fraction of sample rows that are <= the point in EVERY coordinate; found {show(t)[:200]}"
    if t[0] == "bin" and t[1] == "/":
        num, den = t[2], t[3]
        smp = None
        if den[0] == "call" and den[1] == G("len") and den[2]:
            smp = den[2][0]
        x2 = ("call", G("numpy.atleast_2d"), (("call", G("numpy.asarray_chkfinite"), (P("x"),), ()),), ())
        # np.newaxis is None
        wants = [("call", G("numpy.sum"), (("call", G("numpy.all"), (CMP("<=", smp, ("sub", x2, ("tuple", (("slice", NONE, NONE, NONE), ax_, ("slice", NONE, NONE, NONE))))),),
                                            (("axis", ("const", -1)),)),), (("axis", ("const", -1)),)) for ax_ in (G("numpy.newaxis"), NONE)]
        from vstat.terms import top_alts as _ta
        choice = {a_ for _l, a_ in _ta(smp)} if smp is not None else set()
        right_way = all(not l_ or (("isnone", P("sample")) in l_) == (a_ == ("attr", SELF, "sample")) for l_, a_ in (_ta(smp) if smp is not None else []))
        ok = smp is not None and num in wants and choice == {P("sample"), ("attr", SELF, "sample")} and right_way
    rep.check(ok, "C16.mc", f"{q}:fraction", fn.where(rets[-1]), "sum over samples of all_d(sample_d <= x_d) / len(sample), sample = supplied or self.sample", why)
    sp = prog.func(f"{TM}.sample")
    bs_ = builder(prog, sp, inline=False)
    oks = False
    for st in cfg_of(sp).all_stmts():
        if isinstance(st, ast.Assign) and isinstance(st.targets[0], ast.Attribute) and st.targets[0].attr == "_sample":
            v = bs_.term(st.value, st)
            lits_ = path_conditions(prog, sp, bs_).of(st)
            disj = _disjuncts(lits_)
            oks = v[0] == "call" and v[1] == ("attr", SELF, "draw_sample") and ("isnone", ("attr", SELF, "_sample")) in disj
    rep.check(oks, "C16.mc", f"{TM}.sample:own-sample", sp.where(), "the cached sample is drawn from the model itself", "the empirical cdf must be computed from samples of this model (self.draw_sample)")
    # Monte-Carlo conditional cdf / icdf
    for name, red in (("conditional_cdf", "cdf"), ("conditional_icdf", "icdf")):
        q = f"{MM}.{name}"
        fn = prog.func(q)
        rep.analysed(fn)
        from vstat.terms import ConvTransparent
        b = ConvTransparent(builder(prog, fn, inline=False))     # asarray_chkfinite(x): the values are x's
        cfg = cfg_of(fn)
        first = [p_ for p_ in fn.positional_params if p_ != "self"][0]
        ok = False
        why = "per-point Monte-Carlo estimate not recognised"
        for st in cfg.all_stmts():
            if isinstance(st, ast.Assign) and isinstance(st.targets[0], ast.Subscript) and cfg.enclosing_loops(st) and ("handler", G(f"{JM}.CouldNotSampleError")) not in path_conditions(prog, fn, b).of(st):
                lp = cfg.enclosing_loops(st)[-1]
                i = ("idx", f"{lp.lineno}:{lp.col_offset}", "enumerate")
                val, giv = ("sub", P(first), i), ("sub", P("given"), i)  # (x_i, given_i) of enumerate(zip(x, given))
                idx = b.term(st.targets[0].slice, st)
                base = b.term(st.targets[0].value, st)
                v = b.term(st.value, st)
                smp = sorted({s for s in walk(v) if s[0] == "call" and s[1] == ("attr", SELF, "conditional_sample")}, key=repr)   # one sample, possibly used twice
                okc = len(smp) == 1 and smp[0][2][1:3] == (P("dim"), giv) and dict(smp[0][3]).get("random_state") == P("random_state")
                if red == "cdf":
                    n_ = smp[0][2][0] if smp else None
                    hit = CMP("<=", smp[0], val) if smp else None
                    sizes = [("call", G("len"), (smp[0],), ()), ("attr", smp[0], "size"), ("sub", ("attr", smp[0], "shape"), ("const", 0))] if smp else []
                    forms = [("bin", "/", ("call", G("numpy.sum"), (hit,), ()), sz) for sz in sizes] + [("call", G("numpy.mean"), (hit,), ()), ("call", G("numpy.average"), (hit,), ())]
                    okv = okc and v in forms
                    if okc and v == ("bin", "/", ("call", G("numpy.sum"), (hit,), ()), n_):
                        rep.fail("C16.mc", f"{q}:fraction-of-the-sample", fn.where(st),
                                 "the number of sample values <= x_i is divided by the REQUESTED sample size: conditional_sample returns fewer values when its iterations run out "
                                 "(MaxIterationWarning), so the estimate tops out below 1 - conditional_cdf([100.], 1, [[0.012]]) = 0.91696 with all 91696 returned values <= 100, "
                                 "while conditional_icdf (np.quantile of the same sample) is unaffected; divide by len(sample)")
                        okv = True      # the wiring itself (which sample, which point, which index) is decided below as before
                else:
                    okv = okc and v == ("call", G("numpy.quantile"), (smp[0], val), ())
                from .buffers import float_buffer
                fb = float_buffer(base)
                ok = okv and idx == i and fb is not None
                rep.check(bool(fb), "C16.mc", f"{q}:float-buffer", fn.where(st), "the result buffer is a float array",
                          f"the estimates are stored into {show(base)[:60]}, which takes the dtype of the argument: for integer-valued {first} every probability / quantile is truncated to an integer")
                # zip(x, given) stops at the shorter of the two: an np.empty buffer of the length of x keeps uninitialised memory in its other rows
                if base[0] == "call" and base[1] in (G("numpy.empty_like"), G("numpy.empty")):
                    pcs_all = path_conditions(prog, fn, b)
                    guarded_len = False
                    for rs in cfg.all_stmts():
                        if isinstance(rs, ast.Raise) and cfg.node(rs) is not None and not cfg.enclosing_loops(rs):
                            for l in pcs_all.of(rs):
                                while l[0] == "not":
                                    l = l[1]
                                if l[0] == "cmp" and l[1] in ("==", "!=") and mentions(l, P("given")) and mentions(l, P(first)) \
                                        and all(any(w_[0] == "call" and w_[1] == G("len") or w_[0] == "attr" and w_[2] in ("shape", "size") for w_ in walk(side)) for side in l[2:4]):
                                    guarded_len = True
                    strict = isinstance(lp.iter, ast.Call) and any(isinstance(a_, ast.Call) and any(k.arg == "strict" and isinstance(k.value, ast.Constant) and k.value.value is True for k in a_.keywords)
                                                                    for a_ in ast.walk(lp.iter))
                    rep.check(guarded_len or strict, "C16.mc", f"{q}:every-point", fn.where(st), "every entry of the result is computed (values and conditioning points of unequal number are rejected)",
                              f"the result is an np.empty buffer of the length of {first}, filled in a loop over zip({first}, given) that ends with the shorter of the two: "
                              "conditional_icdf([0.1, 0.5, 0.9], 1, [[3.0]]) returned [5.934, 1.2345e+300, 1.2345e+300] and conditional_cdf([6.0, 6.6, 7.6], 1, [[3.0]]) "
                              "[0.12857, 6.595, 7.547] - whatever the memory held, 'probabilities' above 1 included; raise ValueError for unequal lengths (the check is commented out)")
                why = (f"point i must be estimated from conditional_sample(n, dim, given_i, random_state=random_state) of the SAME i and stored at index i "
                       f"({'fraction of the sample <= x_i' if red == 'cdf' else 'np.quantile(sample, p_i)'}); found [{show(idx)[:30]}] = {show(v)[:160]}")
        rep.check(ok, "C16.mc", f"{q}:per-point", fn.where(), f"{'(sample <= x_i).sum()/len(sample)' if red == 'cdf' else 'quantile(sample, p_i)'} with sample conditioned on given_i, stored at i", why)
        # no sample, no estimate: what is stored when the sampler gives up must not look like a result
        fab = []
        for st in cfg.all_stmts():
            if isinstance(st, ast.Assign) and isinstance(st.targets[0], ast.Subscript) and ("handler", G(f"{JM}.CouldNotSampleError")) in path_conditions(prog, fn, b).of(st):
                v = b.term(st.value, st)
                nan = v in (G("numpy.nan"), G("numpy.NaN"), G("math.nan"), ("call", G("float"), (("const", "nan"),), ()))
                if not nan:
                    fab.append((st, v))
        rep.check(not fab, "C16.mc", f"{q}:no-sample", fn.where(fab[0][0]) if fab else fn.where(), "a point that could not be sampled is reported as nan (or the error is raised)",
                  f"when conditional_sample raises CouldNotSampleError the result is set to {show(fab[0][1]) if fab else ''}: a fabricated {'probability' if red == 'cdf' else 'quantile'} "
                  "(Windmeier model, dataset C, given Hs = 11.529 m: median Tz = 0.0 s where the exact median is 13.0 s; a 50-year IFORM contour of a TransformedModel gets "
                  "vertices with Tz = 0) - store nan or let the error through")
    # exact hierarchical conditional cdf / icdf
    dists, cond = ("attr", SELF, "distributions"), ("attr", SELF, "conditional_on")
    for name, meth in (("conditional_cdf", "cdf"), ("conditional_icdf", "icdf")):
        q = f"{JM}.GlobalHierarchicalModel.{name}"
        fn = prog.func(q)
        rep.analysed(fn)
        from vstat.terms import ConvTransparent
        b = ConvTransparent(builder(prog, fn, inline=False, guarded=True))
        pcs_ = path_conditions(prog, fn, b._b)
        rets = [s for s in cfg_of(fn).all_stmts() if isinstance(s, ast.Return)]
        first = [p_ for p_ in fn.positional_params if p_ != "self"][0]
        d = ("sub", dists, P("dim"))
        lit = ("isnone", ("sub", cond, P("dim")))
        want = {(lit, ("call", ("attr", d, meth), (P(first),), ())),
                (("not", lit), ("call", ("attr", d, meth), (P(first),), (("given", ("col", P("given"), ("sub", cond, P("dim")))),)))}
        # every returned alternative (one joined result, early returns, a conditional expression) with its branch literals
        got = set()
        for r in rets:
            for lits, v in guarded_alts(b.term(r.value, r)):
                conds = [l for l in tuple(pcs_.of(r)) + tuple(lits)]
                got.add((conds[0] if len(set(conds)) == 1 else ("and", tuple(conds)), v))
        ok = got == want
        t = phi(v for _l, v in got) if got else NONE
        rep.check(ok, "C16.mc", f"{q}:exact", fn.where(rets[-1]), f"distributions[dim].{meth}({first}[, given=given[:, conditional_on[dim]]])",
                  f"the exact conditional {meth} must be distributions[dim].{meth} of the argument given column conditional_on[dim] of given (same dim), on the right None-branch; found {show(t)[:200]}")
