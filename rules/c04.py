"""C04 - AND/OR contour points have empirical exceedance alpha within allowed_error (wiring)."""
import ast

from vstat.loader import AnalysisError
from vstat.terms import builder, CMP, ordered, show, SELF, NONE, G, alts, walk, mentions, phi, subst
from vstat.guards import path_conditions
from vstat.cfg import cfg_of, EXIT
from vstat.dataflow import rd_of
from vstat.sigs import bind
from vstat import algebra
from .c03 import default_n
from .ctor import ctor_stores

CT = "virocon.contours"
P = lambda n: ("param", n)
Lc = lambda n: ("local", n)
EXPL = ("C04.pred: AND combines x > v0 and y > v1 with np.logical_and, OR with np.logical_or, x/y = columns 0/1 of the sample, strict >, "
        "pe = count/size of that mask; the two search-loop bodies agree statement by statement except for the combiner (sibling cross-check); "
        "C04.exit: the search loop is left only by its test |pe - alpha|/alpha > allowed_error becoming false or by a break that is dominated by "
        "warnings.warn(UserWarning) under the iteration-limit test; no else/return; C04.sync: inside the loop the vector is defined before and not "
        "redefined after the statement computing pe from it, and the coordinates stored after the loop are components of that vector; C04.ray: "
        "vector = (cos, sin)(theta*pi/180) * scalar, theta from the documented range; C04.close: AND arrays of size len(thetas)+1 with last point "
        "(0, 0), OR appends (0, y_last), (0, 0), (x_first, 0) in this order; C04.filter: an OR point is appended iff both components are below "
        "1.1*max of the sample column, unmodified; C04.n: default n = int(100/alpha).")
ASSUME = ["that the step-halving search reaches the tolerance is a runtime fact", "allowed_error >= 1 (loop never entered) is outside the property's range"]


def _counter_at_limit(t):
    """[(counter, limit)] (both readings of an equality between two locals) when the test says 'counter == limit' or 'counter >= limit' (either way round) with a local counter."""
    out = []
    if t[0] == "cmp" and t[1] == "==":
        for a, b_ in ((t[2], t[3]), (t[3], t[2])):
            if a[0] == "local" and b_[0] in ("local", "const"):
                out.append((a, b_))
    o = ordered(t)
    if o is not None and not o[2] and o[1][0] == "local" and o[0][0] in ("local", "const"):
        out.append((o[1], o[0]))
    return out or None


def _nonempty(prog, rep):
    from .emptiness import unguarded_reads
    for cls in ("AndContour", "OrContour"):
        q = f"{CT}.{cls}._compute"
        fn = prog.func(q)
        b = builder(prog, fn, inline=False)
        pcs = path_conditions(prog, fn, b)
        bad = unguarded_reads(fn, b, pcs)
        if not bad:
            rep.ok("C04.total", f"{q}:element-reads", fn.where(), "no element of a possibly empty sequence is read")
        if bad:
            # one obligation per function (names and the number of such reads change with harmless rewrites of the closing code)
            st, src, why = bad[0]
            rep.fail("C04.total", f"{q}:element-reads", fn.where(st), f"{', '.join(s_ for _st, s_, _w in bad)} read although {why}: when every searched point is dropped "
                     "(variables of very different scale, an all-negative variable) the constructor ends in an IndexError instead of a contour or a meaningful error")


def run(prog, rep):
    rep.explanation = EXPL
    rep.assumptions = ASSUME
    infos = {}
    for cls, comb in (("AndContour", "numpy.logical_and"), ("OrContour", "numpy.logical_or")):
        rep.part(default_n, prog, rep, f"{CT}.{cls}", "C04.n")
        infos[cls] = one(prog, rep, cls, comb)
    rep.part(sibling, prog, rep, infos)
    rep.part(ctor_stores, prog, rep, "C04.ctor", f"{CT}.AndContour", ["model", "alpha", "deg_step", "sample", "allowed_error"])
    rep.part(ctor_stores, prog, rep, "C04.ctor", f"{CT}.OrContour", ["model", "alpha", "deg_step", "sample", "allowed_error", "lowest_theta", "highest_theta"])
    rep.part(_nonempty, prog, rep)
    rep.expect_min("C04.total", 2)
    rep.explanation += (" C04.total: the closing of the contour reads no element of a point list that can be empty (all searched points dropped by the "
                        "1.1 x max filter): a contour or a meaningful error, not an IndexError.")
    rep.expect_min("C04.ctor", 4)
    rep.expect_min("C04.n", 4)
    rep.expect_min("C04.pred", 5)
    rep.expect_min("C04.exit", 6)
    rep.expect_min("C04.sync", 6)
    rep.expect_min("C04.ray", 4)
    rep.expect_min("C04.close", 2)
    rep.expect_min("C04.filter", 2)
    from .purity import row as _stateless_row
    rep.part(_stateless_row, prog, rep, "C04", 3)

def top_level_index(body, st):
    for i, s in enumerate(body):
        if s is st or any(n is st for n in ast.walk(s)):
            return i
    return None


class Scope:
    """Shallow view of one statement list: resolves a local temporary to the expression assigned to it
    (single top-level assignment in the list) so that extracted temporaries read like the inlined expression."""

    def __init__(self, bs, stmts, keep=(), only=None, alias=None):
        self.bs, self.stmts, self.keep, self.only = bs, list(stmts), set(keep), only
        self.alias = dict(alias or {})   # local name -> the local it is a plain copy of
        self.defs = {}
        counts = {}
        for st in self.stmts:
            if isinstance(st, ast.Assign) and len(st.targets) == 1:
                tg = st.targets[0]
                if isinstance(tg, ast.Name):
                    counts[tg.id] = counts.get(tg.id, 0) + 1
                    self.defs[tg.id] = ("one", st)
                elif isinstance(tg, (ast.Tuple, ast.List)) and isinstance(st.value, (ast.Tuple, ast.List)) and len(tg.elts) == len(st.value.elts):
                    for t_, v_ in zip(tg.elts, st.value.elts):
                        if isinstance(t_, ast.Name):
                            counts[t_.id] = counts.get(t_.id, 0) + 1
                            self.defs[t_.id] = ("pair", st, v_)
        for st in self.stmts:
            for n in ast.walk(st):
                if isinstance(n, ast.AugAssign) and isinstance(n.target, ast.Name):
                    counts[n.target.id] = counts.get(n.target.id, 0) + 2
        self.defs = {k: v for k, v in self.defs.items() if counts.get(k) == 1
                     and (self.only is None or isinstance(v[1].value if v[0] == "one" else v[2], self.only))}

    def term(self, expr, at):
        return self.resolve(self.bs.term(expr, at))

    def resolve(self, t, depth=0):
        if depth > 6:
            return t
        m = {}
        for s_ in walk(t):
            if s_[0] == "local" and s_[1] in self.alias:
                m[s_] = ("local", self.alias[s_[1]])
            elif s_[0] == "local" and s_[1] in self.defs and s_[1] not in self.keep:
                d = self.defs[s_[1]]
                v = self.bs.term(d[1].value if d[0] == "one" else d[2], d[1])
                m[s_] = self.resolve(v, depth + 1)
        return subst(t, m) if m else t


def search_loop(fn, cfg, bs):
    """(F, L, continuation test term, body statements, form) - the loop over the angles and the search loop in it."""
    fors = [s for s in cfg.all_stmts() if isinstance(s, ast.For)]
    outer = [f for f in fors if not cfg.enclosing_loops(f)]
    if len(outer) != 1:
        raise AnalysisError(f"{fn.qualname}: expected one loop over the angles")
    F = outer[0]
    inner = [s for s in ast.walk(F) if isinstance(s, (ast.While, ast.For)) and s is not F and cfg.enclosing_loops(s) == [F]]
    if len(inner) != 1:
        raise AnalysisError(f"{fn.qualname}: expected one search loop inside the loop over the angles, found {len(inner)}")
    L = inner[0]
    if isinstance(L, ast.While):
        return F, L, bs.term(L.test, L), list(L.body), "while"
    first = L.body[0] if L.body else None
    # leading tolerance test: 'if precise enough: [result = ...; flag = ...;] break'
    if isinstance(first, ast.If) and first.body and isinstance(first.body[-1], ast.Break) and not first.orelse \
            and all(isinstance(x, ast.Assign) and all(isinstance(t_, ast.Name) for t_ in x.targets) for x in first.body[:-1]):
        t = bs.term(first.test, first)
        from vstat.terms import neg_test
        return F, L, neg_test(t), list(L.body[1:]), "for"
    raise AnalysisError(f"{fn.qualname}: counted search loop without a leading tolerance test")


def one(prog, rep, cls, comb):
    q = f"{CT}.{cls}._compute"
    fn = prog.func(q)
    rep.analysed(fn)
    bs = builder(prog, fn, inline=False, shallow=True)
    bf = builder(prog, fn, inline=False)
    cfg = cfg_of(fn)
    rd = rd_of(fn)
    F, W, cont, body, form = search_loop(fn, cfg, bs)
    alpha = ("attr", SELF, "alpha")
    # ---- predicate: mask and pe
    sc0 = Scope(bs, body, only=ast.Compare)
    mask_st = None
    for st in body:
        if isinstance(st, ast.Assign) and isinstance(st.targets[0], ast.Name):
            t = bs.term(st.value, st)
            if t[0] == "call" and t[1] in (G("numpy.logical_and"), G("numpy.logical_or")) or (t[0] == "bin" and t[1] in ("&", "|")):
                mask_st = st
    if mask_st is None:
        rep.fail("C04.pred", f"{q}:mask", fn.where(W), "no exceedance mask (np.logical_and / np.logical_or) found in the search loop")
        return None
    mname = mask_st.targets[0].id
    mt = sc0.term(mask_st.value, mask_st)
    site = fn.where(mask_st)
    comb_t = mt[1] if mt[0] == "call" else {"&": G("numpy.logical_and"), "|": G("numpy.logical_or")}[mt[1]]
    rep.check(comb_t == G(comb), "C04.pred", f"{q}:combiner", site, f"{comb.split('.')[-1]}",
              f"{cls} must combine the two exceedances with {comb} ('both' vs 'at least one'), found {show(comb_t)}")
    parts = mt[2] if mt[0] == "call" else (mt[2], mt[3])
    vname = None
    ok = len(parts) == 2
    why = ""
    xy = []
    if ok:
        for k, c in enumerate(parts):
            if not (c[0] == "cmp" and c[1] in (">", "<", ">=", "<=")):
                ok, why = False, f"component {k} is not a comparison"
                break
            op, l, r = c[1], c[2], c[3]
            if op in ("<", "<="):
                op, l, r = {"<": ">", "<=": ">="}[op], r, l
            if op != ">":
                ok, why = False, f"exceedance must be strict (sample > point): found '{c[1]}'"
                break
            if not (r[0] == "sub" and r[1][0] == "local" and r[2] == ("const", k)):
                ok, why = False, f"sample column {k} must be compared with component {k} of the current vector; found {show(r)[:60]}"
                break
            vname = r[1][1] if vname in (None, r[1][1]) else "?"
            # the sample column: a local bound outside the loops -> full term
            xy.append(bf.name(l[1], mask_st, {}) if l[0] == "local" else l)
    if ok and vname == "?":
        ok, why = False, "the two comparisons use different vectors"
    if ok:
        from vstat.terms import strip_conv as _sc
        raw_xy = xy
        xy = [_sc(v_) for v_ in xy]       # np.asarray(sample): a DataFrame / list of rows is converted, the values are the sample's
        rep.check(all(r_ != v_ for r_, v_ in zip(raw_xy, xy)), "C04.pred", f"{q}:sample:array-like", site, "the sample is converted to an array before it is unpacked",
                  "x, y = sample.T on the sample as supplied: a DataFrame (what read_ec_benchmark_dataset returns) raises 'too many values to unpack', a list of rows has no .T; "
                  "unpack np.asarray(sample).T")
        smp = xy[0][1] if xy[0][0] == "col" else None
        ok = xy[0][0] == "col" and xy[1][0] == "col" and xy[0][1] == xy[1][1] and (xy[0][2], xy[1][2]) == (("const", 0), ("const", 1))
        want = {("attr", SELF, "sample"), ("call", ("attr", ("attr", SELF, "model"), "draw_sample"), (("attr", SELF, "n"),), ())}
        ok = ok and set(alts(smp)) <= want
        why = f"x and y must be columns 0 and 1 of the (supplied or drawn) sample; found {show(xy[0])[:80]} / {show(xy[1])[:80]}"
    rep.check(ok, "C04.pred", f"{q}:exceedance", site, "x > v[0] , y > v[1] (strict, own components)", why)
    if not ok:
        return None
    pe_st = vec_st = None
    m = Lc(mname)
    forms = (("bin", "/", ("call", G("numpy.sum"), (m,), ()), ("attr", m, "size")),
             ("bin", "/", ("call", G("numpy.count_nonzero"), (m,), ()), ("attr", m, "size")),
             ("call", G("numpy.mean"), (m,), ()),
             ("bin", "/", ("call", G("numpy.sum"), (m,), ()), ("call", G("len"), (m,), ())),
             ("bin", "/", ("call", G("numpy.count_nonzero"), (m,), ()), ("call", G("len"), (m,), ())))
    for st in body:
        if isinstance(st, ast.Assign) and isinstance(st.targets[0], ast.Name):
            if bs.term(st.value, st) in forms:
                pe_st = st
            if st.targets[0].id == vname:
                vec_st = st
    rep.check(pe_st is not None, "C04.pred", f"{q}:pe", fn.where(W), "pe = mask.sum() / mask.size",
              "the exceedance probability must be the fraction of sample points in the mask (count / size of the SAME mask)")
    if pe_st is None:
        for st in body:
            if isinstance(st, ast.Assign) and isinstance(st.targets[0], ast.Name) and st is not mask_st and mentions(bs.term(st.value, st), m):
                pe_st = st
                break
    if pe_st is None or vec_st is None:
        if vec_st is None:
            rep.fail("C04.sync", f"{q}:vector", fn.where(W), f"the vector {vname} is not assigned at the top level of the search loop")
        return None
    pename = pe_st.targets[0].id
    # ---- exit

    def is_alpha(t):
        return t == alpha or (t[0] == "local" and bf.name(t[1], W, {}) == alpha)

    def is_allowed(t):
        ae = ("attr", SELF, "allowed_error")
        return t == ae or (t[0] == "local" and bf.name(t[1], W, {}) == ae)

    tt = cont
    okt = False
    o_ = ordered(tt)
    if o_ is not None and o_[2] and is_allowed(o_[0]) and o_[1][0] == "bin" and o_[1][1] == "/" and is_alpha(o_[1][3]):
        num = o_[1][2]
        if num[0] == "call" and num[1] in (G("numpy.abs"), G("abs")) and len(num[2]) == 1:
            dlt = num[2][0]
            okt = dlt[0] == "bin" and dlt[1] == "-" and ((dlt[2] == Lc(pename) and is_alpha(dlt[3])) or (dlt[3] == Lc(pename) and is_alpha(dlt[2])))
    rep.check(okt, "C04.exit", f"{q}:test", fn.where(W), "search continues while |pe - alpha| / alpha > allowed_error",
              f"the search must continue exactly while the relative error of the current pe exceeds allowed_error: |pe - alpha|/alpha > allowed_error; found {show(tt)[:160]}")
    else_ok = not W.orelse or (form == "for" and all(
        (isinstance(x, ast.Assign) and all(isinstance(t_, ast.Name) for t_ in x.targets)) or (isinstance(x, ast.Expr) and isinstance(x.value, ast.Call) and _is_warn(bf.term(x.value, x), "UserWarning"))
        for x in W.orelse))   # for-else: what runs when the iterations are used up (recording that / warning) is not another exit
    rep.check(else_ok and not any(isinstance(n, ast.Return) for n in ast.walk(W)), "C04.exit", f"{q}:no-other-exit", fn.where(W),
              "no else / return in the search loop", "the search loop must have no other exit than its test and the warned stop at the iteration limit")
    inside = {cfg.node(s_) for s_ in ast.walk(W) if id(s_) in cfg.node_of}
    warn_nodes = [cfg.node(s_) for s_ in ast.walk(W) if isinstance(s_, ast.Expr) and isinstance(s_.value, ast.Call) and _is_warn(bf.term(s_.value, s_), "UserWarning")]
    lead = W.body[0].body[-1] if form == "for" else None
    breaks = [n for n in ast.walk(W) if isinstance(n, ast.Break) and n is not lead]
    okb, why = True, ""
    for br in breaks:
        enc = cfg.enclosing(br)
        ifs = [p_ for p_, w_ in enc if isinstance(p_, ast.If) and w_ == "body" and any(x is p_ for x in ast.walk(W))]
        dom = any(wn in inside and cfg.dominates(wn, cfg.node(br)) for wn in warn_nodes)
        lim = False
        if ifs:
            t_if = bs.term(ifs[-1].test, ifs[-1])
            lim = _counter_at_limit(t_if) is not None
        if not dom:
            okb, why = False, "a break leaves the search loop without the 'could not achieve the required precision' UserWarning: an inaccurate point is returned silently"
        elif not lim:
            okb, why = False, "the warned break is not guarded by the iteration counter reaching the maximum"
    if form == "while":
        if not breaks:
            okb, why = False, "no iteration limit found: a non-converging search never terminates"
    else:
        # counted loop: running out of iterations is an exit too and must be warned in the last iteration
        it = bs.term(W.iter, W)
        last = None
        if it[0] == "call" and it[1] == G("range") and it[2]:
            stop = it[2][0] if len(it[2]) == 1 else it[2][1]
            last = ("bin", "-", stop, ("const", 1))
        lv = Lc(W.target.id) if isinstance(W.target, ast.Name) else None
        warned_last = False
        for wn in warn_nodes:
            st_w = cfg.stmt[wn]
            for p_, w_ in cfg.enclosing(st_w):
                if isinstance(p_, ast.If) and w_ == "body" and any(x is p_ for x in ast.walk(W)):
                    t_if = bs.term(p_.test, p_)
                    for cl in _counter_at_limit(t_if) or ():
                        if cl[0] != lv or last is None:
                            continue
                        lim_t = cl[1]
                        lim_full = bf.name(lim_t[1], W, {}) if lim_t[0] == "local" else lim_t
                        last_full = subst(last, {s_: bf.name(s_[1], W, {}) for s_ in walk(last) if s_[0] == "local"})
                        if algebra.same(lim_full, last_full):
                            warned_last = True
        if not warned_last:
            # ... or warned where the loop ends without the tolerance break: in the loop's else clause, or after the loop under a
            # flag that is set one way at the tolerance break and the other way in the else clause / before the loop
            if any(isinstance(x, ast.Expr) and isinstance(x.value, ast.Call) and _is_warn(bf.term(x.value, x), "UserWarning") for x in W.orelse):
                warned_last = True
            else:
                def flag_consts(stmts):
                    return {x.targets[0].id: x.value.value for x in stmts if isinstance(x, ast.Assign) and len(x.targets) == 1 and isinstance(x.targets[0], ast.Name)
                            and isinstance(x.value, ast.Constant) and isinstance(x.value.value, bool)}
                at_break = flag_consts(W.body[0].body[:-1])
                at_end = flag_consts(W.orelse)
                fb = F.body
                wi = next((k_ for k_, x in enumerate(fb) if x is W), None)
                if wi is not None and not at_end:
                    # initial value before the loop, changed only at the tolerance break
                    at_end = {n_: v_ for n_, v_ in flag_consts(fb[:wi]).items() if n_ in at_break}
                for name_, v_break in at_break.items():
                    if name_ in at_end and at_end[name_] is (not v_break) and wi is not None:
                        others = [d_ for d_ in rd.all_defs(name_) if d_.stmt is not None and not any(d_.stmt is x for x in list(W.body[0].body) + list(W.orelse) + fb[:wi])]
                        for x in fb[wi + 1:]:
                            if isinstance(x, ast.If) and not others:
                                tt_ = bs.term(x.test, x)
                                want_ = Lc(name_) if at_end[name_] else ("not", Lc(name_))
                                if tt_ == want_ and any(isinstance(y, ast.Expr) and isinstance(y.value, ast.Call) and _is_warn(bf.term(y.value, y), "UserWarning") for y in x.body):
                                    warned_last = True
        if not warned_last:
            okb, why = False, "the counted search loop can run out of iterations without the 'could not achieve the required precision' UserWarning"
    rep.check(okb, "C04.exit", f"{q}:break", fn.where(breaks[0]) if breaks else fn.where(W), "the iteration limit is left only after warnings.warn(UserWarning)", why)
    # ---- sync
    iv, im, ip = (top_level_index(body, s_) for s_ in (vec_st, mask_st, pe_st))
    rep.check(iv is not None and im is not None and ip is not None and iv < im < ip, "C04.sync", f"{q}:order", fn.where(pe_st),
              "vector, then mask, then pe", "in each iteration the vector must be computed before the mask and pe computed from that mask")
    later = [d for d in rd.all_defs(vname) if d.stmt is not vec_st]
    redefs = [d for d in later if any(n is d.stmt for n in ast.walk(W))]
    rep.check(not redefs, "C04.sync", f"{q}:no-redefinition", fn.where(redefs[0].stmt) if redefs else fn.where(vec_st),
              "the vector is assigned once per iteration", f"{vname} is reassigned inside the search loop after pe was computed from it: the stored point is not the one whose exceedance was tested")
    mask_users = [mask_st] + [d[1] for n_, d in sc0.defs.items() if d[1] is not vec_st and any(isinstance(x, ast.Name) and x.id == vname for x in ast.walk(d[1]))]
    okm = all([d.stmt for d in rd.reaching(vname, u)] == [vec_st] for u in mask_users if any(isinstance(x, ast.Name) and x.id == vname for x in ast.walk(u)))
    rep.check(okm, "C04.sync", f"{q}:mask-uses-current", fn.where(mask_st),
              "the mask reads this iteration's vector", "the mask must be computed from the vector of the same iteration")
    # a name that is only ever bound to the vector where the loop ends (at the tolerance break / in the else clause) is the vector
    aliases = {}
    ends = (list(W.body[0].body) if form == "for" else []) + list(W.orelse)
    for x in ends:
        if isinstance(x, ast.Assign) and len(x.targets) == 1 and isinstance(x.targets[0], ast.Name) and isinstance(x.value, ast.Name) and x.value.id == vname:
            nm_ = x.targets[0].id
            ds_ = [d for d in rd.all_defs(nm_) if d.kind != "del"]
            if ds_ and all(isinstance(d.stmt, ast.Assign) and isinstance(d.value, ast.Name) and d.value.id == vname and any(d.stmt is e for e in ends) for d in ds_) \
                    and all([dd.stmt for dd in rd.reaching(vname, d.stmt)] in ([vec_st], []) or True for d in ds_):
                aliases[nm_] = vname
    # reads of the vector after the search loop, inside the angle loop
    stores = []
    iW = top_level_index(F.body, W)
    for st in F.body[iW + 1:] if iW is not None else []:
        for n in ast.walk(st):
            if isinstance(n, ast.Name) and (n.id == vname or n.id in aliases) and isinstance(n.ctx, ast.Load):
                holder = _stmt_containing(F.body, n)
                if holder is not None and holder not in [h for h, _ in stores]:
                    stores.append((holder, n))

    def from_last_iteration(h, n_):
        at = _inner_stmt(cfg, h, n_)
        if n_.id == vname:
            return [d.stmt for d in rd.reaching(vname, at)] == [vec_st]
        # through the alias: every binding of the alias that reaches here copies the vector of the last iteration
        return all([d2.stmt for d2 in rd.reaching(vname, d.stmt)] == [vec_st] for d in rd.reaching(n_.id, at)) and bool(rd.reaching(n_.id, at))

    ok = bool(stores) and all(from_last_iteration(h, n_) for h, n_ in stores)
    rep.check(ok, "C04.sync", f"{q}:stored-point", fn.where(stores[0][0]) if stores else fn.where(F),
              "the stored coordinates are components of the vector pe was last computed from",
              "the coordinates stored after the search must be components of the vector defined in the last iteration (before pe), nothing else")
    pdefs = rd.reaching(pename, W.body[0] if form == "for" else W)
    okp = all(d.stmt is pe_st or (d.kind == "assign" and isinstance(d.value, ast.Constant) and d.value.value == 0) for d in pdefs) and any(d.stmt is pe_st for d in pdefs)
    rep.check(okp, "C04.sync", f"{q}:pe-tested", fn.where(W), "the loop test reads the pe of the last iteration (initially 0)",
              "the loop test must read the pe computed in the last iteration")
    rep.check(iv is not None and body[iv] is vec_st, "C04.sync", f"{q}:vector-top-level", fn.where(vec_st), "vector assignment is unconditional in the iteration", "the vector must be assigned unconditionally in every iteration")
    # ---- ray
    scF = Scope(bs, F.body, keep={vname}, alias=aliases)
    vt = bs.term(vec_st.value, vec_st)
    usrc = None
    if vt[0] == "bin" and vt[1] == "*":
        for u, s_ in ((vt[2], vt[3]), (vt[3], vt[2])):
            if u[0] == "local" and usrc is None:
                # (a) a local array filled component-wise in the angle loop (possibly under another name it was then bound from)
                unit_names = {u[1]}
                for _k in range(3):
                    for x in F.body:
                        if isinstance(x, ast.Assign) and len(x.targets) == 1 and isinstance(x.targets[0], ast.Name) and x.targets[0].id in unit_names and isinstance(x.value, ast.Name):
                            unit_names.add(x.value.id)
                comps = {}
                for x in F.body:
                    if isinstance(x, ast.Assign) and isinstance(x.targets[0], ast.Subscript) and isinstance(x.targets[0].value, ast.Name) and x.targets[0].value.id in unit_names:
                        comps[bf.term(x.targets[0].slice, x)] = bf.term(x.value, x)
                if comps:
                    usrc = ("stores", comps, None)
                else:
                    # (b) the result of a helper called with the loop's angle
                    d = [dd for dd in rd.reaching(u[1], vec_st) if dd.kind == "assign"]
                    if len(d) == 1 and isinstance(d[0].value, ast.Call):
                        ct = bf.term(d[0].value, d[0].stmt)
                        # (c) built in one expression: np.array([[c0], [c1]]) / np.array([c0, c1]).reshape(2, 1) ...
                        arr = ct
                        while arr[0] == "call" and arr[1][0] == "attr" and arr[1][2] in ("reshape", "astype") :
                            arr = arr[1][1]
                        if arr[0] == "call" and arr[1] in (G("numpy.array"), G("numpy.asarray")) and arr[2] and arr[2][0][0] in ("list", "tuple") and len(arr[2][0][1]) == 2:
                            items = [x[1][0] if x[0] in ("list", "tuple") and len(x[1]) == 1 else x for x in arr[2][0][1]]
                            usrc = ("stores", {("const", 0): items[0], ("const", 1): items[1]}, None)
                            continue
                        callee = prog.functions.get(ct[1][1]) if ct[0] == "call" and ct[1][0] == "func" else None
                        if callee is not None and len(ct[2]) == 1:
                            cb = builder(prog, callee, inline=False)
                            rets = [r_ for r_ in cfg_of(callee).all_stmts() if isinstance(r_, ast.Return)]
                            if len(rets) == 1 and isinstance(rets[0].value, ast.Name):
                                comps = {}
                                for x in cfg_of(callee).all_stmts():
                                    if isinstance(x, ast.Assign) and isinstance(x.targets[0], ast.Subscript) and isinstance(x.targets[0].value, ast.Name) and x.targets[0].value.id == rets[0].value.id:
                                        comps[cb.term(x.targets[0].slice, x)] = subst(cb.term(x.value, x), {P(callee.positional_params[0]): ct[2][0]})
                                usrc = ("stores", comps, callee)
    rep.check(usrc is not None, "C04.ray", f"{q}:scaled-unit", fn.where(vec_st), "vector = unit direction * scalar",
              f"the searched point must stay on the ray: vector = unit direction * scalar; found {show(vt)[:100]}")
    lid = f"{F.lineno}:{F.col_offset}"
    if usrc is not None:
        comps = usrc[1]
        c0, c1 = comps.get(("const", 0)), comps.get(("const", 1))
        ok = False
        theta = None
        if c0 and c1 and c0[0] == "call" and c0[1] == G("numpy.cos") and c1[0] == "call" and c1[1] == G("numpy.sin") and c0[2] == c1[2]:
            arg = c0[2][0]
            ths = [s_ for s_ in walk(arg) if s_[0] == "sub" and s_[2][0] == "idx" and s_[2][1] == lid]
            if ths:
                theta = ths[0]
                ok = algebra.same(arg, ("bin", "/", ("bin", "*", theta, G("numpy.pi")), ("const", 180)))
        rep.check(ok, "C04.ray", f"{q}:direction", fn.where(F), "unit = (cos, sin)(theta * pi / 180) of the loop's theta",
                  f"the ray direction must be (cos, sin) of the loop angle in radians (theta*pi/180), cos in component 0; found {show(c0)[:90] if c0 else None} / {show(c1)[:90] if c1 else None}")
        if theta is not None:
            grid = theta[1]
            if cls == "AndContour":
                want = ("call", G("numpy.arange"), (("const", 0), ("const", 90), ("attr", SELF, "deg_step")), ())
            else:
                want = ("call", G("numpy.arange"), (("attr", SELF, "lowest_theta"), ("attr", SELF, "highest_theta"), ("attr", SELF, "deg_step")), ())
            rep.check(grid == want, "C04.ray", f"{q}:thetas", fn.where(F), f"thetas = {show(want)}", f"angles must be {show(want)}; found {show(grid)[:120]}")
    # ---- closure / filter
    coord = [s_ for s_ in cfg.all_stmts() if isinstance(s_, ast.Assign) and isinstance(s_.targets[0], ast.Attribute) and s_.targets[0].attr == "coordinates"]
    ct = bs.term(coord[0].value, coord[0]) if coord else None
    V = lambda k: ("sub", Lc(vname), ("const", k))
    if cls == "AndContour":
        ok = False
        why = "coordinates must be the two filled arrays as columns"
        if ct is not None and ct[0] == "cols" and len(ct[1]) == 2 and all(x[0] == "local" for x in ct[1]):
            nx, ny = ct[1][0][1], ct[1][1][1]
            fin = {}
            ins = {}
            for st in cfg.all_stmts():
                if isinstance(st, ast.Assign) and isinstance(st.targets[0], ast.Subscript) and isinstance(st.targets[0].value, ast.Name) and st.targets[0].value.id in (nx, ny):
                    k = bf.term(st.targets[0].slice, st)
                    val = scF.term(st.value, st) if cfg.enclosing_loops(st) else bs.term(st.value, st)
                    (ins if cfg.enclosing_loops(st) else fin).setdefault(st.targets[0].value.id, []).append((k, val, st))
            i = ("idx", lid, "enumerate")
            # component k of the (2, 1) vector: vector[k] (a one-element array) or vector[k, 0] (the number itself)
            comp_ = lambda k: (V(k), ("sub", ("col", Lc(vname), ("const", 0)), ("const", k)))
            unwrap_ = lambda t_: t_[2][0] if t_[0] == "call" and t_[1] in (G("float"), G("numpy.float64")) and len(t_[2]) == 1 and not t_[3] else t_
            got = {nm: [(x[0], unwrap_(x[1])) for x in ins.get(nm, [])] for nm in (nx, ny)}
            okin = len(got[nx]) == 1 and len(got[ny]) == 1 and got[nx][0][0] == i and got[ny][0][0] == i and got[nx][0][1] in comp_(0) and got[ny][0][1] in comp_(1)
            # an element of a float array takes a number: a one-element ARRAY is converted only through a deprecated path
            # (NumPy >= 1.25 DeprecationWarning "Conversion of an array with ndim > 0 to a scalar", an error under -W error)
            arrs = [x[2] for nm in (nx, ny) for x in ins.get(nm, []) if x[1] in (V(0), V(1))]
            rep.check(not arrs, "C04.close", f"{q}:numeric", fn.where(arrs[0]) if arrs else fn.where(), "the stored components are numbers",
                      "a one-element array (vector[k] of the (2, 1) vector) is stored into an element of a float array: NumPy converts it through a deprecated path "
                      "(DeprecationWarning on every AndContour, ValueError under -W error); store the number vector[k, 0] as OrContour does")
            okfin = [x[:2] for x in fin.get(nx, [])] == [(("const", -1), ("const", 0))] and [x[:2] for x in fin.get(ny, [])] == [(("const", -1), ("const", 0))]
            thetas_t = bf.term(F.iter, F)
            th = thetas_t[2][0] if thetas_t[0] == "call" and thetas_t[1] == G("enumerate") else None
            size_ok = th is not None and all(bf.name(nm, F, {}) in (("call", G("numpy.empty"), (("bin", "+", ("attr", th, "size"), ("const", 1)),), ()),
                                                                     ("call", G("numpy.zeros"), (("bin", "+", ("attr", th, "size"), ("const", 1)),), ()),
                                                                     ("call", G("numpy.empty"), (("bin", "+", ("call", G("len"), (th,), ()), ("const", 1)),), ())) for nm in (nx, ny))
            ok = okin and okfin and size_ok
            why = ("AND contour: arrays of size len(thetas)+1, point i stored at index i (x from component 0, y from component 1), final point (0, 0) at index -1; "
                   f"in-loop ok={okin} closing ok={okfin} size ok={size_ok}")
        if not ok and ct is not None and ct[0] == "attr" and ct[2] == "T" and ct[1][0] in ("call", "local"):
            # ... or one (2, len(thetas) + 1) matrix filled column by column and transposed: column i <- the vector's column, the last
            # column is the closing point (0, 0) BY INITIALISATION - so the matrix must start as zeros, not as np.empty
            mname_ = ct[1][1] if ct[1][0] == "local" else None
            init = bf.name(mname_, F, {}) if mname_ is not None else ct[1]
            thetas_t = bf.term(F.iter, F)
            th = thetas_t[2][0] if thetas_t[0] == "call" and thetas_t[1] == G("enumerate") else None
            sizes = [("bin", "+", ("attr", th, "size"), ("const", 1)), ("bin", "+", ("call", G("len"), (th,), ()), ("const", 1))] if th is not None else []
            zeros_ok = init[1] == G("numpy.zeros") and len(init[2]) >= 1 and init[2][0][0] == "tuple" and len(init[2][0][1]) == 2 and init[2][0][1][0] == ("const", 2) \
                and init[2][0][1][1] in sizes
            mstores = [st for st in cfg.all_stmts() if isinstance(st, (ast.Assign, ast.AugAssign)) and isinstance((st.targets[0] if isinstance(st, ast.Assign) else st.target), ast.Subscript)
                       and (bs.term((st.targets[0] if isinstance(st, ast.Assign) else st.target).value, st) in (init, ct[1]))]
            i = ("idx", lid, "enumerate")
            col_i = ("tuple", (("slice", NONE, NONE, NONE), i))
            vcol = ("col", Lc(vname), ("const", 0))
            in_ok = len(mstores) == 1 and isinstance(mstores[0], ast.Assign) and cfg.enclosing_loops(mstores[0]) and bf.term(mstores[0].targets[0].slice, mstores[0]) == col_i \
                and scF.term(mstores[0].value, mstores[0]) in (vcol, ("call", ("attr", Lc(vname), "ravel"), (), ()), ("call", ("attr", Lc(vname), "flatten"), (), ()))
            ok = zeros_ok and in_ok
            why = ("AND contour as one matrix: np.zeros((2, len(thetas) + 1)) (zeros: its last column is the closing point), column i <- the point of direction i, transposed; "
                   f"zeros / size ok={zeros_ok} in-loop ok={in_ok}")
        rep.check(ok, "C04.close", f"{q}:closure", fn.where(coord[0]) if coord else fn.where(), "points at their own index, closed with (0, 0)", why)
        return {"fn": fn, "W": W, "mask": mask_st, "mname": mname, "bs": bs}
    # OrContour: sequences appended to the two lists
    if ct is None or ct[0] != "cols" or len(ct[1]) != 2:
        rep.fail("C04.close", f"{q}:closure", fn.where(), "coordinates must be the two lists as columns")
        return {"fn": fn, "W": W, "mask": mask_st, "mname": mname, "bs": bs}
    cols_names = []
    for col in ct[1]:
        nm = None
        if col[0] == "local":
            d = [dd for dd in rd.reaching(col[1], coord[0])]
            if len(d) == 1 and d[0].kind == "assign" and isinstance(d[0].value, ast.Call) and d[0].value.args and isinstance(d[0].value.args[0], ast.Name):
                nm = d[0].value.args[0].id
            else:
                nm = col[1]
        cols_names.append(nm)
    nx, ny = cols_names
    # closing sequence: statements after the angle loop, in order; temporaries are evaluated where they are assigned
    tail = fn.body[fn.body.index(F) + 1:] if F in fn.body else []
    seq = {nx: [], ny: []}
    temps = {}
    order_ok = True
    for st in tail:
        if isinstance(st, ast.Assign) and isinstance(st.targets[0], ast.Name) and isinstance(st.value, ast.Subscript) and isinstance(st.value.value, ast.Name) and st.value.value.id in seq:
            # y_last = coords_y[-1]: valid only while nothing was appended to that list yet
            temps[st.targets[0].id] = (bs.term(st.value, st), len(seq[st.value.value.id]))
            continue
        # the closing points as one concatenation: L = L + [a, b, c] / L += [...] / np.array(L + [a, b, c], dtype=float)
        cat = None
        if isinstance(st, (ast.Assign, ast.AugAssign)):
            v0 = st.value
            if isinstance(v0, ast.Call) and ast.unparse(v0.func) in ("np.array", "np.asarray", "numpy.array", "numpy.asarray") and v0.args:
                v0 = v0.args[0]
            if isinstance(st, ast.AugAssign) and isinstance(st.op, ast.Add) and isinstance(st.target, ast.Name) and st.target.id in seq and isinstance(v0, (ast.List, ast.Tuple)):
                cat = (st.target.id, list(v0.elts))
            elif isinstance(st, ast.Assign) and isinstance(v0, ast.BinOp) and isinstance(v0.op, ast.Add) and isinstance(v0.left, ast.Name) and v0.left.id in seq \
                    and isinstance(v0.right, (ast.List, ast.Tuple)):
                cat = (v0.left.id, list(v0.right.elts))
        is_call = isinstance(st, ast.Expr) and isinstance(st.value, ast.Call) and isinstance(st.value.func, ast.Attribute) and isinstance(st.value.func.value, ast.Name) and st.value.func.value.id in seq
        if is_call or cat is not None:
            vals = []
            if cat is not None:
                nm, vals = cat
            elif st.value.func.attr == "append" and len(st.value.args) == 1:
                nm = st.value.func.value.id
                vals = [st.value.args[0]]
            elif st.value.func.attr == "extend" and len(st.value.args) == 1 and isinstance(st.value.args[0], (ast.List, ast.Tuple)):
                nm = st.value.func.value.id
                vals = list(st.value.args[0].elts)
            else:
                nm = st.value.func.value.id
            for v_ in vals:
                tv = bs.term(v_, st)
                if tv[0] == "local" and tv[1] in temps:
                    tv, at_len = temps[tv[1]]
                    if at_len != 0:
                        order_ok = False
                elif tv[0] == "sub" and tv[1] == Lc(nm) and tv[2] == ("const", -1) and len(seq[nm]) != 0:
                    order_ok = False  # 'last element' read after a closing point was already appended
                seq[nm].append(tv)
    wantx = [("const", 0), ("const", 0), ("sub", Lc(nx), ("const", 0))]
    wanty = [("sub", Lc(ny), ("const", -1)), ("const", 0), ("const", 0)]
    okc = seq[nx] == wantx and seq[ny] == wanty and order_ok
    rep.check(okc, "C04.close", f"{q}:closure", fn.where(tail[0]) if tail else fn.where(), "(0, y_last), (0, 0), (x_first, 0) appended in this order",
              f"OR contour must be closed with exactly (0, y_last), (0, 0), (x_first, 0) in this order, y_last / x_first read from the lists themselves before the closing points are added; "
              f"x gets {[show(a) for a in seq[nx]]}, y gets {[show(a) for a in seq[ny]]}")
    inl = {nx: [], ny: []}
    for st in ast.walk(F):
        if isinstance(st, ast.Expr) and isinstance(st.value, ast.Call) and isinstance(st.value.func, ast.Attribute) and st.value.func.attr == "append" \
                and isinstance(st.value.func.value, ast.Name) and st.value.func.value.id in inl:
            inl[st.value.func.value.id].append((scF.term(st.value.args[0], st), st))
    # component k of the (2, 1) vector: vector[k] (a one-element array) or vector[k, 0] (the number itself)
    comp = lambda k: (V(k), ("sub", ("col", Lc(vname), ("const", 0)), ("const", k)))
    unwrap = lambda t_: t_[2][0] if t_[0] == "call" and t_[1] in (G("float"), G("numpy.float64")) and len(t_[2]) == 1 and not t_[3] else t_
    okv = len(inl[nx]) == 1 and len(inl[ny]) == 1 and unwrap(inl[nx][0][0]) in comp(0) and unwrap(inl[ny][0][0]) in comp(1)
    # the points must end up in a numeric array: one-element arrays mixed with the ints of the closing points only fit into an object
    # array, which cannot be plotted (plot_2D_contour raises) and is saved only through a deprecated conversion
    obj = [n_ for n_ in ast.walk(fn.node) if isinstance(n_, ast.Call) and any(k_.arg == "dtype" and isinstance(k_.value, ast.Name) and k_.value.id == "object" for k_ in n_.keywords)]
    rep.check(not obj, "C04.close", f"{q}:numeric", fn.where(obj[0]) if obj else fn.where(), "the coordinates are a numeric array",
              "the contour points are collected in an array of dtype=object (one-element arrays and ints mixed): plot_2D_contour(contour) raises ValueError "
              "'inhomogeneous shape' and np.isfinite(contour.coordinates) TypeError; append the numbers (vector[k, 0]) and build a float array")
    rep.check(okv, "C04.filter", f"{q}:unmodified", fn.where(inl[nx][0][1]) if inl[nx] else fn.where(), "appended values are the vector's components, unmodified",
              f"a kept point must be appended unmodified (x <- component 0, y <- component 1); found {[show(a)[:50] for a, _ in inl[nx] + inl[ny]]}")
    okf = False
    why = "the in-loop appends are not guarded by the range filter"
    if inl[nx] and inl[ny]:
        sx, sy = inl[nx][0][1], inl[ny][0][1]
        ifx = [p_ for p_, w_ in cfg.enclosing(sx) if isinstance(p_, ast.If) and w_ == "body" and any(n is p_ for n in ast.walk(F))]
        ify = [p_ for p_, w_ in cfg.enclosing(sy) if isinstance(p_, ast.If) and w_ == "body" and any(n is p_ for n in ast.walk(F))]
        if ifx and ifx == ify and not any(i_.orelse for i_ in ifx):
            # the guard: one test 'a and b', or the same two tests nested
            from vstat.guards import literals as _lits
            lits = []
            for i_ in ifx:
                lits += _lits(scF.term(i_.test, i_), True)
            tf = ("and", tuple(lits))
            xs = ("col", xy[0][1], ("const", 0))
            ys = ("col", xy[0][1], ("const", 1))

            def lim_ok(l, comp, col):
                o_ = ordered(l)
                if o_ is not None and o_[2] and o_[0] in (V(comp), ("sub", ("col", Lc(vname), ("const", 0)), ("const", comp))):
                    lim = o_[1]
                    lim = bf.name(lim[1], ifx[0], {}) if lim[0] == "local" else lim
                    from vstat.terms import strip_conv as _sc
                    lim = _sc(lim)
                    for mx in (("call", G("max"), (col,), ()), ("call", G("numpy.max"), (col,), ())):
                        if algebra.same(lim, ("bin", "*", ("const", 1.1), mx)):
                            return True
                return False
            okf = len(lits) == 2 and lim_ok(lits[0], 0, xs) and lim_ok(lits[1], 1, ys)
            why = f"an OR point is kept iff component 0 < 1.1*max(x) AND component 1 < 1.1*max(y); found {show(tf)[:200]}"
    rep.check(okf, "C04.filter", f"{q}:range", fn.where(), "kept iff v[0] < 1.1 max(x) and v[1] < 1.1 max(y)", why)
    return {"fn": fn, "W": W, "mask": mask_st, "mname": mname, "bs": bs}


def _inner_stmt(cfg, holder, node):
    """The CFG statement (simple statement or compound header) that evaluates ``node`` inside ``holder``."""
    best = holder
    for st in ast.walk(holder):
        if id(st) in cfg.node_of and st is not holder:
            own = [st.test] if isinstance(st, (ast.If, ast.While)) else [st.iter] if isinstance(st, ast.For) else [st] if not isinstance(st, (ast.Try, ast.With)) else []
            if any(any(n is node for n in ast.walk(e)) for e in own):
                best = st
    if isinstance(holder, (ast.If, ast.While)) and any(n is node for n in ast.walk(holder.test)):
        best = holder
    return best


def _stmt_containing(body, node):
    for st in body:
        if any(n is node for n in ast.walk(st)):
            return st
    return None


def _is_warn(t, cat):
    if t[0] == "call" and t[1] == G("warnings.warn"):
        c = dict(t[3]).get("category", t[2][1] if len(t[2]) > 1 else None)
        return c == G(cat)
    return False


def sibling(prog, rep, infos):
    a, o = infos.get("AndContour"), infos.get("OrContour")
    rep.check(bool(a) and bool(o), "C04.pred", "AndContour/OrContour:siblings", "virocon/contours.py",
              "both search loops were recognised and checked against the same obligations",
              "sibling comparison impossible: one of the search loops was not recognised")
