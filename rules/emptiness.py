"""Reads of an element of a sequence that can be empty.

``X[k]`` with a constant k raises IndexError on an empty X.  Two ways a sequence is possibly empty are recognised:
 (a) X is a local list bound to ``[]`` that grows only by ``X.append(...)`` calls which are all conditional (inside a loop
     body or under an ``if``) before the read;
 (b) X is a boolean-mask selection ``A[mask]`` (mask a comparison / conjunction of comparisons).
A read is guarded when its path condition says that X (or len(X), X.size) is not zero / not empty."""
import ast

from vstat.cfg import cfg_of
from vstat.terms import G, ordered, CMP, _boolish


def _nonzero(lits, x):
    zero, one = ("const", 0), ("const", 1)
    for l in lits:
        if l == x or l == ("not", ("not", x)) or l == ("not", CMP("==", x, zero)):
            return True
        if l[0] == "cmp" and l[1] == "==" and l[2] == x and l[3][0] == "const" and isinstance(l[3][1], int) and l[3][1] > 0:
            return True     # len(X) == k for a positive k
        o = ordered(l)
        if o is not None and ((o[0] == zero and o[1] == x and o[2]) or (o[0] == one and o[1] == x and not o[2])):
            return True
        if l[0] == "not":
            o = ordered(l[1])
            if o is not None and ((o[0] == x and o[1] == zero and not o[2]) or (o[0] == x and o[1] == one and o[2])):
                return True
    return False


def _own_nodes(st):
    todo = []
    for name, val in ast.iter_fields(st):
        if name in ("body", "orelse", "finalbody", "handlers"):
            continue
        todo.extend(val if isinstance(val, list) else [val])
    for v in todo:
        if isinstance(v, ast.AST):
            yield from ast.walk(v)


def _const_int(node):
    if isinstance(node, ast.Constant) and isinstance(node.value, int) and not isinstance(node.value, bool):
        return node.value
    if isinstance(node, ast.UnaryOp) and isinstance(node.op, ast.USub) and isinstance(node.operand, ast.Constant) and isinstance(node.operand.value, int):
        return -node.operand.value
    return None


def unguarded_reads(fn, b, pcs):
    """[(statement, source of the read, why the sequence can be empty)]"""
    cfg = cfg_of(fn)
    empties = {}  # name -> defining statement of 'name = []'
    for st in cfg.all_stmts():
        if isinstance(st, ast.Assign) and len(st.targets) == 1 and isinstance(st.targets[0], ast.Name) and isinstance(st.value, ast.List) and not st.value.elts:
            empties[st.targets[0].id] = st
    out = []
    for st in cfg.all_stmts():
        for node in _own_nodes(st):
            if not (isinstance(node, ast.Subscript) and isinstance(node.ctx, ast.Load) and _const_int(node.slice) is not None):
                continue
            why = None
            base = None
            if isinstance(node.value, ast.Name) and node.value.id in empties:
                name = node.value.id
                sure = False
                for s2 in cfg.all_stmts():
                    if isinstance(s2, ast.Expr) and isinstance(s2.value, ast.Call) and isinstance(s2.value.func, ast.Attribute) and s2.value.func.attr in ("append", "extend", "insert") \
                            and isinstance(s2.value.func.value, ast.Name) and s2.value.func.value.id == name and s2 is not st:
                        if not cfg.enclosing(s2) and cfg.dominates(cfg.node(s2), cfg.node(st)) and cfg.dominates(cfg.node(empties[name]), cfg.node(s2)):
                            sure = True
                if not sure:
                    why = f"'{name}' starts empty and every append before this read is conditional"
                    base = b.term(node.value, st)
            else:
                t = b.term(node.value, st)
                if t[0] == "sub" and _boolish(t[2]):
                    why = f"a boolean-mask selection {ast.unparse(node.value)[:50]} can select nothing"
                    base = t
            if why is None:
                continue
            lits = pcs.of(st)
            ln = ("call", G("len"), (base,), ())
            if _nonzero(lits, ln) or _nonzero(lits, base) or _nonzero(lits, ("attr", base, "size")):
                continue
            out.append((st, ast.unparse(node)[:50], why))
    return out
