"""C20 - exported, plotted and loaded data are exactly the computed / stored values (wiring)."""
import ast

from vstat.loader import AnalysisError
from vstat.terms import IT, builder, show, SELF, NONE, G, alts, walk, mentions, phi, strip_none, galts
from vstat.guards import path_conditions
from vstat.cfg import cfg_of
from vstat.sigs import bind
from vstat.numpydoc import parameters as doc_params
from vstat import algebra

P = lambda n: ("param", n)
PL = "virocon.plotting"
EXPL = ("C20.save: np.savetxt receives the path ('.txt' appended iff splitext gives no extension), contour.coordinates itself, fmt '%1.6f', "
        "delimiter ';', comments '', and a header joining with ';' one '<name> (<unit>)' per dimension with the same index in names and units; "
        "C20.contour: plot_2D_contour plots column x_idx against column y_idx of contour.coordinates, each closed with its own first element, "
        "(x_idx, y_idx) = (1, 0) iff swap_axis; the sample is scattered with the same indices; supplied design conditions are scattered column 0 "
        "against column 1 and computed with the same swap_axis when requested; C20.supplied: no parameter documented as array-like is used as a "
        "truth value (package-wide lint over numpydoc types); C20.others: dependence plots draw dep_func(x) and the per-interval estimates of the "
        "same parameter, isodensity contours model.pdf(grid) reshaped to the mesh with axes exchanged iff swap_axis, histograms overlay the "
        "interval's own distribution, the Q-Q wrapper's ppf is marginal_icdf(q, idx) of its own index; C20.read: read_csv(path, sep=';', "
        "skipinitialspace=True) with no row-limiting argument and the first column parsed as %Y-%m-%d-%H as index.")
ASSUME = ["what numpy.savetxt, matplotlib and pandas do with those arguments is not decided"]


def run(prog, rep):
    rep.explanation = EXPL + ' C20.read also follows a parsing helper (it gets the path, its frame is returned) and refuses a memoised loader.'
    rep.assumptions = ASSUME
    rep.part(save, prog, rep)
    rep.part(contour, prog, rep)
    rep.part(supplied, prog, rep)
    rep.part(others, prog, rep)
    rep.part(read, prog, rep)
    rep.part(axes_table, prog, rep)
    rep.expect_min("C20.save", 5)
    rep.expect_min("C20.contour", 6)
    rep.expect_min("C20.supplied", 1)
    rep.expect_min("C20.others", 7)
    rep.expect_min("C20.read", 3)
    from .purity import row as _stateless_row
    rep.part(_stateless_row, prog, rep, "C20", 3)
    # design_conditions=True draws what calculate_design_conditions returns for the contour: its rows (C17's design part) are filed here too
    from vstat.report import Relabel
    from . import c17
    rep.part(c17.design, prog, Relabel(rep, "C20.design", lambda r, inst: r in ("C17.swap", "C17.probe", "C17.result", "C17.default")))
    rep.expect_min("C20.design", 9)
    rep.explanation += (" C20.design: the rows of C17 for calculate_design_conditions - the helper whose result plot_2D_contour scatters works on the same "
                        "closed polyline that is drawn (closed with its FIRST point, axes exchanged iff swap_axis).")

def axes_table(prog, rep):
    """plot_histograms_of_interval_distributions draws one histogram per interval on axes taken from a literal layout table:
    for every admitted number of intervals the index must be inside the table and the layout must have enough axes."""
    from vstat.terms import ordered
    q = "virocon.plotting._get_n_axes"
    fn = prog.func(q)
    rep.analysed(fn)
    b = builder(prog, fn, inline=False)
    pcs = path_conditions(prog, fn, b)
    cfg = cfg_of(fn)
    n = ("param", [p for p in fn.positional_params][0])
    M = None
    for st in cfg.all_stmts():
        if isinstance(st, ast.Raise):
            for l in pcs.of(st):
                o = ordered(l)
                if o is not None and o[1] == n and o[0][0] == "const" and isinstance(o[0][1], int):
                    M = o[0][1] if o[2] else o[0][1] - 1     # raise when n > M  /  n >= M + 1
    sub = None
    for st in cfg.all_stmts():
        for node in ast.walk(st) if isinstance(st, (ast.Assign, ast.Expr, ast.Return)) else []:
            if isinstance(node, ast.Subscript) and isinstance(node.ctx, ast.Load):
                base = b.term(node.value, st)
                if base[0] == "list" and all(x[0] == "tuple" and len(x[1]) == 2 and all(y[0] == "const" for y in x[1]) for x in base[1]):
                    sub = (st, base, b.term(node.slice, st))
    if M is None or sub is None:
        raise AnalysisError(f"{q}: the layout table / the admitted maximum of intervals was not found")
    st, table, idx = sub
    c = 0 if idx == n else idx[3][1] if idx[0] == "bin" and idx[1] == "-" and idx[2] == n and idx[3][0] == "const" else None
    c = -idx[3][1] if c is None and idx[0] == "bin" and idx[1] == "+" and idx[2] == n and idx[3][0] == "const" else c
    if c is None:
        rep.fail("C20.others", f"{q}:in-range", fn.where(st), f"the table index {show(idx)[:40]} is not the number of intervals plus/minus a constant")
        return
    L = len(table[1])
    rep.check(0 <= 1 - c and M - c <= L - 1, "C20.others", f"{q}:in-range", fn.where(st), f"index {show(idx)} stays in the table of {L} layouts for 1..{M} intervals",
              f"for {M} intervals (the admitted maximum) the index {show(idx)} is {M - c}, outside the table of {L} layouts (last index {L - 1}): IndexError instead of the plots")
    short = [k for k in range(1, M + 1) if 0 <= k - c < L and table[1][k - c][1][0][1] * table[1][k - c][1][1][1] < k]
    rep.check(not short, "C20.others", f"{q}:capacity", fn.where(st), "every layout has at least as many axes as intervals",
              f"the layout chosen for {short[:4]} interval(s) has fewer axes than intervals: per-interval estimates are not all drawn")


def find_calls(fn, b, pred):
    out = []
    for st in cfg_of(fn).all_stmts():
        exprs = [st.test] if isinstance(st, (ast.If, ast.While)) else [st.iter] if isinstance(st, ast.For) else [st] if isinstance(st, (ast.Assign, ast.Expr, ast.Return, ast.AugAssign)) else []
        for e in exprs:
            for n in ast.walk(e):
                if isinstance(n, ast.Call):
                    t = b.term(n, st)
                    if pred(t, n):
                        out.append((st, n, t))
    return out


def save(prog, rep):
    q = "virocon.contours.save_contour_coordinates"
    fn = prog.func(q)
    rep.analysed(fn)
    b = builder(prog, fn, inline=False)
    pcs = path_conditions(prog, fn, b)
    calls = find_calls(fn, b, lambda t, n: t[0] == "call" and t[1] == G("numpy.savetxt"))
    if len(calls) != 1:
        raise AnalysisError(f"{q}: expected one np.savetxt call")
    st, node, t = calls[0]
    site = fn.where(st)
    bd = bind(t)
    if bd is None:
        raise AnalysisError(f"{q}: cannot bind np.savetxt arguments")
    coords = ("attr", P("contour"), "coordinates")
    fp = P("file_path")
    rep.check(bd.get("X") == coords, "C20.save", f"{q}:data", site, "X = contour.coordinates",
              f"the written array must be contour.coordinates itself (every row, in order); found {show(bd.get('X', NONE))[:100]}")
    rep.check(bd.get("fmt") == ("const", "%1.6f"), "C20.save", f"{q}:fmt", site, "fmt='%1.6f'", f"values must be written with 6 decimals ('%1.6f'); found {show(bd.get('fmt', NONE))}")
    rep.check(bd.get("delimiter") == ("const", ";") and bd.get("comments") == ("const", "") and "newline" not in bd and "footer" not in bd,
              "C20.save", f"{q}:layout", site, "delimiter=';', comments=''",
              f"columns must be separated by ';' and the header written without comment prefix; found delimiter={show(bd.get('delimiter', NONE))} comments={show(bd.get('comments', NONE))}")
    # path rule
    ext = IT(("call", G("os.path.splitext"), (fp,), ()), 1)
    want = {fp, ("bin", "+", fp, ("const", ".txt"))}
    got = alts(bd.get("fname", NONE))
    ok = got == want
    if ok:
        augs = [s for s in cfg_of(fn).all_stmts() if isinstance(s, (ast.AugAssign, ast.Assign)) and b.term(s.value, s) in (("const", ".txt"), ("bin", "+", fp, ("const", ".txt")))]
        ok = len(augs) == 1 and tuple(pcs.of(augs[0])) == (("not", ext),)
    rep.check(ok, "C20.save", f"{q}:path", site, "'.txt' appended iff os.path.splitext(file_path) has no extension",
              f"the file name must be file_path, extended by '.txt' exactly when it has no extension; found {show(bd.get('fname', NONE))[:120]}")
    # header
    h = bd.get("header", NONE)
    # "one header line": np.savetxt writes the header verbatim, a line break inside a name (the same strings label the plot axes,
    # where two-line names are common) would give several header lines.  The joined text may be flattened first.
    one_line = False
    def _flat(t):
        """X if t is X with its line breaks replaced: ' '.join(X.splitlines()) / X.replace('\n', ' ')"""
        if t[0] == "call" and t[1][0] == "attr" and t[1][2] == "join" and t[1][1][0] == "const" and isinstance(t[1][1][1], str) and "\n" not in t[1][1][1] \
                and "\r" not in t[1][1][1] and len(t[2]) == 1 and t[2][0][0] == "call" and t[2][0][1][0] == "attr" and t[2][0][1][2] in ("splitlines", "split") and not t[2][0][2]:
            return t[2][0][1][1]
        return None
    inner = _flat(h)
    if inner is not None:
        one_line, h = True, inner
    rep.check(one_line, "C20.save", f"{q}:one-header-line", site, "the header is flattened to one line before it is written",
              "the header built from the semantics strings goes to np.savetxt as it is: a name with a line break ('Significant\\nwave height', natural for an axis "
              "label) gives a file with several header lines (15 lines for 12 points) that np.loadtxt(..., skiprows=1) cannot read; write ' '.join(header.splitlines())")
    ok = False
    why = f"header must be ';'.join('<name> (<unit>)' for each dimension); found {show(h)[:200]}"
    ndim = ("sub", ("attr", coords, "shape"), ("const", 1))
    if h[0] == "call" and h[1] == ("attr", ("const", ";"), "join") and len(h[2]) == 1 and h[2][0][0] == "comp":
        c = h[2][0]
        d = ("idx", c[3], "range", (ndim,))
        if c[4] == ("call", G("range"), (ndim,), ()) and c[2][0] == "fstr" and len(c[2][1]) == 4:
            a, sp, u, cl = c[2][1]
            sem_ok = lambda part, key: part[0] == "fmt" and part[1][0] == "sub" and part[1][2] == d and part[1][1][0] == "sub" and part[1][1][2] == ("const", key) \
                and P("semantics") in alts(part[1][1][1])
            ok = sem_ok(a, "names") and sem_ok(u, "units") and sp == ("const", " (") and cl == ("const", ")") and a[1][1][1] == u[1][1][1]
            if ok:
                sem = a[1][1][1]
                dflt = [x for x in alts(sem) if x != P("semantics")]
                ok = len(dflt) == 1 and dflt[0] == ("call", ("func", f"{PL}.get_default_semantics"), (ndim,), ())
                why = "default semantics must be get_default_semantics(n_dim) with n_dim = contour.coordinates.shape[1]"
    rep.check(ok, "C20.save", f"{q}:header", site, "header = ';'.join(f\"{names[d]} ({units[d]})\" for d in range(n_dim))", why)


def swap_map(fn, b, rep, rule, q):
    """(x_idx term, y_idx term) as guarded phis; checks (1,0) iff swap_axis."""
    sw = P("swap_axis")
    X = frozenset({((sw,), ("const", 1)), ((("not", sw),), ("const", 0))})
    Y = frozenset({((sw,), ("const", 0)), ((("not", sw),), ("const", 1))})
    return ("gphi", X), ("gphi", Y)


def closed_series(v):
    """base if v is 'base followed by base[0]' in one expression: np.append(b, b[0]), np.concatenate((b, [b[0]])), np.r_[b, b[0]],
    [*b, b[0]], b + [b[0]], b + b[:1]; else None."""
    first = lambda base: ("sub", base, ("const", 0))
    if v[0] == "call" and v[1] == G("numpy.append") and len(v[2]) == 2 and not v[3] and v[2][1] in (first(v[2][0]), ("list", (first(v[2][0]),))):
        return v[2][0]
    if v[0] == "call" and v[1] in (G("numpy.concatenate"), G("numpy.hstack")) and len(v[2]) == 1 and v[2][0][0] in ("tuple", "list") and len(v[2][0][1]) == 2:
        base, last = v[2][0][1]
        if last in (("list", (first(base),)), ("sub", base, ("slice", NONE, ("const", 1), NONE))):
            return base
    if v[0] == "sub" and v[1] == G("numpy.r_") and v[2][0] == "tuple" and len(v[2][1]) == 2 and v[2][1][1] == first(v[2][1][0]):
        return v[2][1][0]
    if v[0] == "list" and len(v[1]) == 2 and v[1][0][0] == "star" and v[1][1] == first(v[1][0][1]):
        return v[1][0][1]
    if v[0] == "bin" and v[1] == "+" and v[3] in (("list", (first(v[2]),)), ("sub", v[2], ("slice", NONE, ("const", 1), NONE))):
        return v[2]
    return None


def contour(prog, rep):
    q = f"{PL}.plot_2D_contour"
    fn = prog.func(q)
    rep.analysed(fn)
    # small helpers (label formatting, polyline closing) are looked through; the calls the rule reasons about stay opaque
    b = builder(prog, fn, inline=True, guarded=True, no_inline=("calculate_design_conditions", "get_default_semantics"))
    pcs = path_conditions(prog, fn, b)
    XI, YI = swap_map(fn, b, rep, "C20.contour", q)
    coords = ("attr", P("contour"), "coordinates")
    plots = find_calls(fn, b, lambda t, n: t[0] == "call" and t[1][0] == "attr" and t[1][2] == "plot")
    if len(plots) != 1:
        raise AnalysisError(f"{q}: expected one ax.plot call")
    st, node, t = plots[0]
    site = fn.where(st)
    def series(v, idx):
        return v in (("col", coords, idx), ("call", ("attr", ("col", coords, idx), "tolist"), (), ()), ("call", G("list"), (("col", coords, idx),), ()))
    wantx = ("call", ("attr", ("col", coords, XI), "tolist"), (), ())
    px, py = (t[2] + (NONE, NONE))[:2]
    cx, cy = closed_series(px), closed_series(py)
    ok = len(t[2]) >= 2 and series(cx if cx is not None else px, XI) and series(cy if cy is not None else py, YI)
    rep.check(ok, "C20.contour", f"{q}:polyline", site, "plot(coordinates[:, x_idx], coordinates[:, y_idx]) with (x_idx, y_idx) = (1, 0) iff swap_axis",
              f"the line must be column x_idx against column y_idx of contour.coordinates, indices (1, 0) iff swap_axis else (0, 1); found x={show(t[2][0])[:140] if t[2] else None} y={show(t[2][1])[:140] if len(t[2]) > 1 else None}")
    # closing: name.append(name[0]) for both plotted names, between their definition and the plot
    if ok:
        closed = []
        for arg, cexpr in zip(node.args[:2], (cx, cy)):
            good = cexpr is not None
            if not good and isinstance(arg, ast.Name):
                for s2 in cfg_of(fn).all_stmts():
                    if isinstance(s2, ast.Expr) and isinstance(s2.value, ast.Call) and isinstance(s2.value.func, ast.Attribute) and s2.value.func.attr == "append" \
                            and isinstance(s2.value.func.value, ast.Name) and s2.value.func.value.id == arg.id and len(s2.value.args) == 1:
                        a = s2.value.args[0]
                        if isinstance(a, ast.Subscript) and isinstance(a.value, ast.Name) and a.value.id == arg.id and isinstance(a.slice, ast.Constant) and a.slice.value == 0:
                            cfg = cfg_of(fn)
                            if cfg.dominates(cfg.node(s2), cfg.node(st)) and not pcs.of(s2):
                                good = True
            closed.append(good)
        rep.check(all(closed), "C20.contour", f"{q}:closed", site, "both series are closed with their own first element",
                  "the polyline must be closed: x.append(x[0]) and y.append(y[0]) (each with its OWN first element) before plotting")
    else:
        rep.check(ok, "C20.contour", f"{q}:closed", site, "both series are closed with their own first element", "closing not verified (polyline shape not recognised)")
    sc = find_calls(fn, b, lambda t, n: t[0] == "call" and t[1][0] == "attr" and t[1][2] == "scatter")
    samp = [c for c in sc if mentions(c[2], P("sample"))]
    ok = len(samp) == 1 and samp[0][2][2][:2] in ((("col", ("call", G("numpy.asarray"), (P("sample"),), ()), XI), ("col", ("call", G("numpy.asarray"), (P("sample"),), ()), YI)),
                                                    (("col", P("sample"), XI), ("col", P("sample"), YI)))
    ok = ok and ("not", ("isnone", P("sample"))) in pcs.of(samp[0][0])
    rep.check(ok, "C20.contour", f"{q}:sample", fn.where(samp[0][0]) if samp else fn.where(), "scatter(sample[:, x_idx], sample[:, y_idx])",
              "the sample must be scattered with the same (x_idx, y_idx) as the contour, when supplied")
    dcs = [c for c in sc if c not in samp]
    dc = P("design_conditions")
    comp = ("call", ("func", "virocon.utils.calculate_design_conditions"), (P("contour"),), (("swap_axis", P("swap_axis")),))
    ok = False
    why = "no scatter of the design conditions found"
    if len(dcs) == 1:
        a = dcs[0][2][2]
        if len(a) >= 2 and a[0][0] == "col" and a[1][0] == "col" and a[0][1] == a[1][1] and (a[0][2], a[1][2]) == (("const", 0), ("const", 1)):
            from vstat.terms import top_alts
            base_ = a[0][1]
            converted = base_[0] == "call" and base_[1] in (G("numpy.asarray"), G("numpy.array")) and len(base_[2]) == 1 and not base_[3]
            if converted:
                base_ = base_[2][0]     # np.asarray(<supplied or computed>): the same numbers, indexable as an array
            src = {v_ for _l, v_ in top_alts(base_)}
            ok = src == {dc, comp}
            rep.check(converted, "C20.contour", f"{q}:design_conditions:array-like", fn.where(dcs[0][0]), "the design conditions are indexed as np.asarray(...)",
                      "design_conditions is documented as array-like but indexed with [:, 0] as it comes: a list of pairs raises TypeError, a DataFrame KeyError "
                      "(the sample, documented the same way, is converted with np.asarray)")
            why = (f"design conditions must be the supplied array as given, or calculate_design_conditions(contour, swap_axis=swap_axis) when only requested; "
                   f"found {show(a[0][1])[:200]}")
        else:
            why = f"design conditions must be scattered column 0 against column 1 of the same array; found {[show(x)[:80] for x in a[:2]]}"
    rep.check(ok, "C20.contour", f"{q}:design_conditions", fn.where(dcs[0][0]) if dcs else fn.where(), "scatter(dc[:, 0], dc[:, 1]) with dc supplied or computed with the same swap_axis", why)
    # labels
    labs = {}
    for stl, nodel, tl in find_calls(fn, b, lambda t, n: t[0] == "call" and t[1][0] == "attr" and t[1][2] in ("set_xlabel", "set_ylabel")):
        labs[tl[1][2]] = tl[2][0] if tl[2] else None
    okl = True
    for meth, idx in (("set_xlabel", XI), ("set_ylabel", YI)):
        lt = labs.get(meth)
        okl = okl and lt is not None and any(s[0] == "sub" and s[2] == idx and s[1][0] == "sub" and s[1][2] == ("const", "names") for s in walk(lt)) \
            and not any(s[0] == "sub" and s[2] == (YI if idx == XI else XI) for s in walk(lt))
    rep.check(okl, "C20.contour", f"{q}:labels", fn.where(), "x label from semantics[x_idx], y label from semantics[y_idx]",
              "axis labels must name the variable that is plotted on that axis (x_idx / y_idx)")
    # return
    rets = [s for s in cfg_of(fn).all_stmts() if isinstance(s, ast.Return)]
    rep.check(len(rets) == 2, "C20.contour", f"{q}:returns", fn.where(), "returns ax (and the design conditions)", "expected the two documented return forms")


def supplied(prog, rep):
    """Package-wide: a parameter documented as array(-like) is never used as a truth value."""
    n_params = 0
    hits = []
    for q, fn in sorted(prog.functions.items()):
        if fn.parent is not None or isinstance(fn.node, ast.Lambda):
            continue
        doc = doc_params(fn.node)
        arr = {n for n, ty in doc.items() if "array" in ty.lower() or "ndarray" in ty.lower()}
        arr &= set(p.lstrip("*") for p in fn.params)
        if not arr:
            continue
        n_params += len(arr)
        b = builder(prog, fn, inline=False)
        for node in ast.walk(fn.node):
            tests = []
            if isinstance(node, (ast.If, ast.While, ast.IfExp)):
                tests.append(node.test)
            elif isinstance(node, ast.BoolOp):
                tests += node.values
            elif isinstance(node, ast.UnaryOp) and isinstance(node.op, ast.Not):
                tests.append(node.operand)
            elif isinstance(node, ast.Assert):
                tests.append(node.test)
            for tnode in tests:
                if isinstance(tnode, ast.Name) and tnode.id in arr:
                    # is it still the parameter here (not rebound to a bool)?
                    st = _stmt_of(fn, tnode)
                    if st is not None:
                        tt = b.term(tnode, st)
                        if P(tnode.id) in alts(tt):
                            hits.append((q, tnode.lineno, tnode.id, doc[tnode.id]))
    for q, ln, name, ty in hits:
        rep.fail("C20.supplied", f"{q}:{name}", f"{prog.functions[q].file}:{ln}",
                 f"parameter '{name}' is documented as '{ty}' but is used as a truth value: an array with more than one element raises ValueError "
                 "(ambiguous truth value), so supplied data cannot be passed")
    if not hits:
        rep.ok("C20.supplied", "package", "virocon/*.py", f"{n_params} array-like documented parameters, none used as a truth value")
    rep.extra["C20.supplied.params"] = n_params


def _stmt_of(fn, node):
    cfg = cfg_of(fn)
    for st in cfg.all_stmts():
        own = [st.test] if isinstance(st, (ast.If, ast.While)) else [st.iter] if isinstance(st, ast.For) else [st] if not isinstance(st, (ast.Try, ast.With, ast.ExceptHandler, ast.FunctionDef, ast.ClassDef)) else []
        for e in own:
            for n in ast.walk(e):
                if n is node:
                    return st
    return None


def _shaped_like(y, x):
    """(value term, True) when y is a value given the shape of x: broadcast_to(v, x.shape), full(x.shape, v), full_like(x, v), v * ones_like(x), v + zeros_like(x)"""
    shapes = (("attr", x, "shape"), ("call", G("numpy.shape"), (x,), ()))
    if y[0] == "call" and y[1] == G("numpy.broadcast_to") and len(y[2]) == 2 and y[2][1] in shapes:
        return y[2][0], True
    if y[0] == "call" and y[1] == G("numpy.full") and len(y[2]) == 2 and y[2][0] in shapes:
        return y[2][1], True
    if y[0] == "call" and y[1] == G("numpy.full_like") and len(y[2]) == 2 and y[2][0] == x:
        return y[2][1], True
    if y[0] == "bin" and y[1] in "*+":
        unit = ("call", G("numpy.ones_like" if y[1] == "*" else "numpy.zeros_like"), (x,), ())
        if y[2] == unit:
            return y[3], True
        if y[3] == unit:
            return y[2], True
    return y, False


_LINES_POSITIVE = """
def f(ax):
    ax.get_lines()[0].set_marker("x")
    if len(ax.lines) > 1:
        ax.lines[1].remove()
    ax.get_lines()[-1].set_marker("o")
    ax.lines[n].remove()
"""


def _absolute_line_indices(tree):
    """subscripts ax.get_lines()[k] / ax.lines[k] with a constant k >= 0: the k-th line of the axes, whoever drew it"""
    out = []
    for n in ast.walk(tree):
        if isinstance(n, ast.Subscript) and isinstance(n.slice, ast.Constant) and isinstance(n.slice.value, int) and n.slice.value >= 0:
            v = n.value
            if isinstance(v, ast.Attribute) and v.attr == "lines" or isinstance(v, ast.Call) and isinstance(v.func, ast.Attribute) and v.func.attr == "get_lines":
                out.append(n)
    return out


def others(prog, rep):
    # dependence functions
    q = f"{PL}.plot_dependence_functions"
    fn = prog.func(q)
    rep.analysed(fn)
    b = builder(prog, fn, inline=False)
    plots = find_calls(fn, b, lambda t, n: t[0] == "call" and t[1][0] == "attr" and t[1][2] == "plot")
    ok = shaped = False
    if len(plots) == 1:
        a = plots[0][2][2]
        if len(a) >= 2:
            y, shaped = _shaped_like(a[1], a[0])
            ok = y[0] == "call" and y[2] == (a[0],) and y[1][0] == "sub" and y[1][1][0] == "attr" and y[1][1][2] == "conditional_parameters"
    rep.check(ok, "C20.others", f"{q}:curve", fn.where(plots[0][0]) if plots else fn.where(), "plot(x, dep_func(x)) of the model's own dependence function",
              "the curve must be dep_func(x) of the model's own conditional_parameters evaluated at the plotted x")
    # a dependence function may return one value for all x (a constant parameter: def const(x, a=0.3): return a - fit, pdf, contours and the other
    # plots work with it); ax.plot(x, scalar) raises 'x and y must have same first dimension'
    rep.check(shaped, "C20.others", f"{q}:curve:constant", fn.where(plots[0][0]) if plots else fn.where(), "the plotted values are broadcast to the shape of x",
              "plot_dependence_functions(model) with 'sigma': DependenceFunction(const), const(x, a=0.3) = a, raised ValueError: x and y must have same first dimension, "
              "shapes (50,) and (1,); nothing is drawn although the model is legitimate: broadcast dep_func(x) to x.shape (a horizontal line)")
    sc = find_calls(fn, b, lambda t, n: t[0] == "call" and t[1][0] == "attr" and t[1][2] == "scatter")
    ok = False
    if len(sc) == 1:
        a = sc[0][2][2]
        if len(a) >= 2 and a[0][0] == "attr" and a[0][2] == "conditioning_values" and a[1][0] == "comp":
            dist = a[0][1]
            c = a[1]
            key = c[2][2] if c[2][0] == "sub" else None
            ok = c[4] == ("attr", dist, "parameters_per_interval") and key is not None and key[0] == "key" and key[1] == ("attr", dist, "conditional_parameters") \
                and c[2][1] == ("sub", c[4], ("idx", c[3], "iter"))
    rep.check(ok, "C20.others", f"{q}:estimates", fn.where(sc[0][0]) if sc else fn.where(),
              "scatter(dist.conditioning_values, [par[par_name] for par in dist.parameters_per_interval])",
              "the markers must be the interval reference values against the per-interval estimates of the SAME parameter of the same distribution")
    # text put into a label is TEXT: a symbol from the semantics handed to re.sub as the replacement is read as a template
    # (r"\\sigma" -> re.error 'bad escape \\s', r"\\theta" -> a TAB in the label) before anything is drawn
    n_sub = 0
    for fq, f_ in sorted(prog.functions.items()):
        if not fq.startswith(PL + ".") or not isinstance(f_.node, ast.FunctionDef) or f_.parent is not None:
            continue
        for n_ in ast.walk(f_.node):
            if isinstance(n_, ast.Call) and isinstance(n_.func, ast.Attribute) and n_.func.attr in ("sub", "subn") and isinstance(n_.func.value, ast.Name) \
                    and n_.func.value.id == "re" and len(n_.args) >= 2:
                n_sub += 1
                repl = n_.args[1]
                literal = isinstance(repl, ast.Constant) and isinstance(repl.value, str)
                local_fns = {d_.name for d_ in ast.walk(f_.node) if isinstance(d_, ast.FunctionDef) and d_ is not f_.node}
                callable_ = isinstance(repl, ast.Lambda) or (isinstance(repl, ast.Name) and repl.id in local_fns)
                escaped = isinstance(repl, ast.Call) and isinstance(repl.func, ast.Attribute) and repl.func.attr == "escape"
                rep.check(literal or callable_, "C20.others", f"{fq}:label-text:{n_sub}", f_.where(n_), "the replacement of re.sub is a literal or a callable",
                          f"re.sub(..., {ast.unparse(repl)[:60]}, ...): a string computed from the caller's semantics is used as the replacement TEMPLATE, its backslashes are "
                          "interpreted - symbols=[r'\\sigma', 'T_z'] raises re.error before anything is drawn, r'\\theta' puts a TAB into the label"
                          + (" (re.escape is for patterns, not for replacements)" if escaped else "") + "; pass a callable: lambda match: text")
    if n_sub == 0:
        rep.fail("C20.others", f"{PL}:label-text", "virocon/plotting.py", "no re.sub call found in the plotting module (anchor vanished)")
    # isodensity
    q = f"{PL}.plot_2D_isodensity"
    fn = prog.func(q)
    rep.analysed(fn)
    b = builder(prog, fn, inline=False, guarded=True)
    cs = find_calls(fn, b, lambda t, n: t[0] == "call" and t[1][0] == "attr" and t[1][2] in ("contour", "contourf"))
    ok = False
    why = "no ax.contour call found"
    if len(cs) == 1:
        a = cs[0][2][2]
        sw = P("swap_axis")
        why = f"contour must draw model.pdf(grid) reshaped to the mesh, axes exchanged iff swap_axis; found {[show(x)[:120] for x in a[:3]]}"
        if len(a) >= 3:
            Xg, Yg, Z = a[0], a[1], a[2]
            gx, gy = galts(Xg), galts(Yg)
            if Z[0] == "call" and Z[1][0] == "attr" and Z[1][2] == "reshape" and Z[1][1][0] == "call" and Z[1][1][1] == ("attr", P("model"), "pdf"):
                grid = Z[1][1][2][0]
                if grid[0] == "cols" and len(grid[1]) == 2:
                    mx, my = grid[1]
                    if mx[0] == "call" and mx[1] == G("numpy.ravel") and my[0] == "call" and my[1] == G("numpy.ravel") and len(mx[2]) == 1 and len(my[2]) == 1:
                        MX, MY = mx[2][0], my[2][0]
                        # unswapped: X=MX, Y=MY ; swapped: X=MY, Y=MX
                        def val(g, lit):
                            for k, v in g.items():
                                if lit in k:
                                    return v
                            return g.get(())
                        n_sw = ("not", sw)
                        xs, ys = val(gx, (sw)), val(gy, sw)
                        xn, yn = val(gx, n_sw), val(gy, n_sw)
                        shape_ok = Z[2] == (("attr", MX, "shape"),)
                        ok = shape_ok and {k for k in gx} and (xs, ys) == (MY, MX) and (xn, yn) in ((MX, MY), (None, None)) or (shape_ok and Xg == MX and Yg == MY and False)
    rep.check(ok, "C20.others", f"{q}:density", fn.where(cs[0][0]) if cs else fn.where(), "contour(X, Y, model.pdf(grid).reshape(X.shape)), X/Y exchanged iff swap_axis", why)
    sc = find_calls(fn, b, lambda t, n: t[0] == "call" and t[1][0] == "attr" and t[1][2] == "scatter")
    XI, YI = swap_map(fn, b, rep, "", q)
    s_arr = ("call", G("numpy.asarray"), (P("sample"),), ())
    ok = len(sc) == 1 and sc[0][2][2][:2] in ((("col", s_arr, XI), ("col", s_arr, YI)), (("col", P("sample"), XI), ("col", P("sample"), YI)))
    rep.check(ok, "C20.others", f"{q}:sample", fn.where(sc[0][0]) if sc else fn.where(), "scatter(sample[:, x_idx], sample[:, y_idx])",
              "the sample must be scattered with (x_idx, y_idx) = (1, 0) iff swap_axis")
    # histograms
    q = f"{PL}.plot_histograms_of_interval_distributions"
    fn = prog.func(q)
    rep.analysed(fn)
    b = builder(prog, fn, inline=False)
    plots = find_calls(fn, b, lambda t, n: t[0] == "call" and t[1][0] == "attr" and t[1][2] == "plot")
    hists = find_calls(fn, b, lambda t, n: t[0] == "call" and t[1][0] == "attr" and t[1][2] == "hist")
    oku = okc = False
    for stp, nodep, t in plots:
        a = t[2]
        if len(a) >= 2 and a[1][0] == "call" and a[1][1][0] == "attr" and a[1][1][2] == "pdf" and a[1][2] == (a[0],):
            recv = a[1][1][1]
            if recv[0] == "sub" and recv[1] == ("attr", P("model"), "distributions"):
                oku = True
            if recv[0] == "sub" and recv[1][0] == "attr" and recv[1][2] == "distributions_per_interval":
                # the histogram in the same axes shows the data of the same interval index
                okc = True
                idx = recv[2]
                for sth, nodeh, th in hists:
                    if cfg_of(fn).enclosing_loops(sth) and cfg_of(fn).enclosing_loops(sth)[-1] is (cfg_of(fn).enclosing_loops(stp) or [None])[-1]:
                        d = th[2][0] if th[2] else None
                        okc = d is not None and d[0] == "sub" and d[2] == idx
    rep.check(oku, "C20.others", f"{q}:unconditional", fn.where(), "plot(x, model.distributions[dim].pdf(x))",
              "the overlaid density of an unconditional variable must be the pdf of the model's own distribution of that dimension at the plotted x")
    rep.check(okc, "C20.others", f"{q}:intervals", fn.where(), "plot(x, distributions_per_interval[k].pdf(x)) over hist(data_intervals[k])",
              "each interval panel must overlay the pdf of the distribution fitted to THAT interval (same index as the histogram data)")
    # Q-Q
    q = f"{PL}.plot_marginal_quantiles"
    fn = prog.func(q)
    rep.analysed(fn)
    wrap = prog.functions.get(f"{q}.MarginalDistWrapper.ppf")
    init = prog.functions.get(f"{q}.MarginalDistWrapper.__init__")
    ok = False
    if wrap is not None and init is not None:
        bw = builder(prog, wrap, inline=False)
        r = [s for s in cfg_of(wrap).all_stmts() if isinstance(s, ast.Return)][0]
        t = bw.term(r.value, r)
        ok = t == ("call", ("attr", ("attr", SELF, "model"), "marginal_icdf"), (P("q"), ("attr", SELF, "idx")), ())
        bi = builder(prog, init, inline=False)
        st_ok = {"model": False, "idx": False}
        for s in cfg_of(init).all_stmts():
            if isinstance(s, ast.Assign) and isinstance(s.targets[0], ast.Attribute) and s.targets[0].attr in st_ok:
                st_ok[s.targets[0].attr] = bi.term(s.value, s) == P(s.targets[0].attr)
        ok = ok and all(st_ok.values())
    rep.check(ok, "C20.others", f"{q}:ppf", fn.where(), "ppf(q) = model.marginal_icdf(q, idx)", "the Q-Q wrapper's ppf must be the model's marginal_icdf of its own index")
    b = builder(prog, fn, inline=False)
    pp = find_calls(fn, b, lambda t, n: t[0] == "call" and t[1] == G("scipy.stats.probplot"))
    ok = False
    if len(pp) == 1:
        t = pp[0][2]
        kw = dict(t[3])
        d = kw.get("dist")
        x = t[2][0] if t[2] else None
        ok = x is not None and x[0] == "col" and d is not None and d[0] == "call" and len(d[2]) == 2 and d[2] == (P("model"), x[2]) \
            and x[1] in (("call", G("numpy.asarray"), (P("sample"),), ()), P("sample")) and kw.get("fit") == ("const", False)
    rep.check(ok, "C20.others", f"{q}:probplot", fn.where(pp[0][0]) if pp else fn.where(), "probplot(sample[:, dim], dist=Wrapper(model, dim), fit=False)",
              "each Q-Q plot must compare column dim of the sample with the marginal of the SAME dim of the model")
    # the axes may be the caller's (axes=...) and hold lines already: the lines probplot adds are not lines 0 and 1 of the axes then
    if len(_absolute_line_indices(ast.parse(_LINES_POSITIVE))) != 2:
        raise AnalysisError("C20: the built-in positive example of absolute line indices is no longer reported")
    absolute = _absolute_line_indices(fn.node)
    rep.check(not absolute, "C20.others", f"{q}:own-lines", fn.where(absolute[0]) if absolute else fn.where(),
              "the lines styled / removed after probplot are found relative to the lines the axes held before",
              "ax.get_lines()[0] / ax.lines[1] are the first lines of the AXES: with axes=axs that already hold a line (ax.axhline(1.0)) the sample's Q-Q points were removed "
              "(ax.lines[1].remove()) and the caller's line restyled instead; count the lines before probplot and index from there")


def read(prog, rep):
    q = "virocon.utils.read_ec_benchmark_dataset"
    fn = prog.func(q)
    rep.analysed(fn)
    b = builder(prog, fn, inline=False)
    entry, entry_b = fn, b
    calls = find_calls(fn, b, lambda t, n: t[0] == "call" and t[1] == G("pandas.read_csv"))
    fp = P("file_path")
    # the parsing may sit in a helper of the package: it must get the path, its result must be returned, and it must not be memoised
    helpers = find_calls(fn, b, lambda t, n: t[0] == "call" and t[1][0] == "func" and t[1][1] in prog.functions)
    memo = []
    for h in [fn] + [prog.functions[ht[1][1]] for _st, _n, ht in helpers]:
        if any("lru_cache" in d or d.endswith("cache") or "cached" in d for d in h.decorators):
            memo.append(h)
    rep.check(not memo, "C20.read", f"{q}:reads-the-file", fn.where(), "every call reads the file (no memoised loader)",
              f"the file is parsed by {[h.qualname for h in memo]}, which is memoised on its arguments: after the first call the rows of the FIRST read are returned "
              "even when the file at that path has been rewritten")
    if not calls:
        for _st, _n, ht in helpers:
            h = prog.functions[ht[1][1]]
            hb = builder(prog, h, inline=False)
            hc = find_calls(h, hb, lambda t, n: t[0] == "call" and t[1] == G("pandas.read_csv"))
            if len(hc) == 1 and h.positional_params:
                arg0 = ht[2][0] if ht[2] else None
                inner0 = arg0[2][0] if arg0 is not None and arg0[0] == "call" and arg0[1] in (G("str"), G("os.fspath"), G("pathlib.Path")) and len(arg0[2]) == 1 else arg0
                passes = inner0 is not None and any(a in (fp, ("call", G("str"), (fp,), ())) for a in alts(inner0))
                rets0 = [s for s in cfg_of(fn).all_stmts() if isinstance(s, ast.Return)]
                rt0 = b.term(rets0[0].value, rets0[0]) if len(rets0) == 1 else None
                back = rt0 in (ht, ("call", ("attr", ht, "copy"), (), ()))
                rep.check(passes and back, "C20.read", f"{q}:delegates", fn.where(_st), f"parsing delegated to {h.name}(file_path), result returned",
                          f"the helper {h.name} must receive the given path and its frame must be what is returned; found call {show(ht)[:100]}, returns {show(rt0)[:80] if rt0 else None}")
                fn, b, calls, fp = h, hb, hc, P(h.positional_params[0])
                rep.analysed(h)
                break
    if len(calls) != 1:
        raise AnalysisError(f"{q}: expected one pd.read_csv call")
    st, node, t = calls[0]
    kw = dict(t[3])
    ok = t[2] and fp in alts(t[2][0]) and kw.get("sep") == ("const", ";") and kw.get("skipinitialspace") == ("const", True)
    rep.check(bool(ok), "C20.read", f"{q}:read_csv", fn.where(st), "read_csv(file_path, sep=';', skipinitialspace=True)",
              f"the file must be read from the given path with ';' as separator; found {show(t)[:160]}")
    limiting = sorted(set(kw) - {"sep", "skipinitialspace"})
    rep.check(not limiting, "C20.read", f"{q}:all-rows", fn.where(st), "no row/column limiting argument",
              f"every data row must be returned in order: unexpected read_csv arguments {limiting}")
    ok = False
    for s in cfg_of(fn).all_stmts():
        if isinstance(s, ast.Assign) and isinstance(s.targets[0], ast.Attribute) and s.targets[0].attr == "index":
            v = b.term(s.value, s)
            if v[0] == "call" and v[1] == G("pandas.to_datetime") and dict(v[3]).get("format") == ("const", "%Y-%m-%d-%H"):
                a = v[2][0] if v[2] else None
                ok = a is not None and a[0] == "call" and a[1] == ("attr", t, "pop") and a[2] == (("sub", ("attr", t, "columns"), ("const", 0)),)
    rep.check(ok, "C20.read", f"{q}:index", fn.where(), "index = to_datetime(first column, format='%Y-%m-%d-%H')",
              "the first column must be removed from the data and become the time index, parsed as %Y-%m-%d-%H")
    rets = [s for s in cfg_of(fn).all_stmts() if isinstance(s, ast.Return)]
    rep.check(len(rets) == 1 and b.term(rets[0].value, rets[0]) == t, "C20.read", f"{q}:returns", fn.where(), "returns the frame that was read",
              "must return the data frame read from the file")
