"""C06 - joint density factorises hierarchically; cdf and marginals are its integrals (wiring)."""
import ast

from vstat.loader import AnalysisError
from vstat.terms import subst, IT, builder, show, SELF, NONE, G, alts, walk, mentions, phi, strip_none, FULL, CMP
from vstat.guards import path_conditions
from vstat.cfg import cfg_of
from vstat.sigs import bind
from vstat import algebra
from .chain import check_chain, model_attr

JM = "virocon.jointmodels"
GHM = f"{JM}.GlobalHierarchicalModel"
EXPL = ("C06.chain: GlobalHierarchicalModel.pdf stores, per column K, distributions[K].pdf(x[:, K][, given=x[:, conditional_on[K]]]) of the "
        "same finite-checked point matrix on the right None-branch, all columns, result = product over the last axis of that matrix; "
        "C06.finite: asarray_chkfinite on the points of pdf / cdf; C06.argorder: every nquad wrapper restores the argument vector with the "
        "inverse permutation args[argsort(arg_order)] of the order that ends with the marginalised dimension, limits (0, x) in the matching "
        "position, result stored at the index of its own point; C06.delegate: unconditional marginals return distributions[dim].pdf/cdf/icdf; "
        "C06.mc: Monte-Carlo quantile is np.quantile(sample[:, dim], p) of a sample drawn from self.")
ASSUME = ["normalisation, quadrature and Monte-Carlo error are not decided", "lower integration limit 0 is valid for non-negative families only (the property's own restriction)",
          "scipy.integrate.nquad: ranges[k] belongs to the k-th positional argument, args= are appended last"]
P = lambda n: ("param", n)


def run(prog, rep):
    rep.explanation = EXPL
    rep.assumptions = ASSUME
    rep.part(pdf_chain, prog, rep)
    rep.part(finite, prog, rep)
    rep.part(argorder, prog, rep)
    rep.part(delegate, prog, rep)
    rep.part(mc, prog, rep)
    rep.part(float_buffers, prog, rep)
    rep.part(lower_limits, prog, rep)
    rep.expect_min("C06.limits", 3)
    rep.explanation += (" C06.limits: the cdf and the marginals integrate the density from the lower end of each variable's support; a constant lower "
                        "limit 0 leaves out the mass below 0 of every variable that can be negative (Normal, von Mises).")
    rep.expect_min("C06.buffer", 3)
    rep.explanation += (" C06.buffer: the arrays that receive densities / probabilities are float arrays - np.empty_like(x) of integer-valued points is an "
                        "integer array in which every value below 1 becomes 0.")
    rep.expect_min("C06.chain", 6)
    rep.expect_min("C06.finite", 3)
    rep.expect_min("C06.argorder", 14)
    rep.expect_min("C06.delegate", 3)
    rep.expect_min("C06.mc", 1)
    from .purity import row as _stateless_row
    rep.part(_stateless_row, prog, rep, "C06", 4)
    # the factors of the joint density are the families' pdf; marginal_icdf is the families' icdf (unconditional variable) or a
    # quantile of the model's own sample (conditional variable): the wiring of those methods, and of the sampler, is filed here too
    from .shared import template_rows, conditional_rows
    from vstat.report import Relabel
    template_rows(prog, rep, "C06.template", ["pdf", "icdf", "draw_sample"], 80)
    conditional_rows(prog, rep, "C06.conditional", ["pdf", "draw_sample"], 5)
    from . import c07
    smp = Relabel(rep, "C06.sampler")
    rep.part(c07.chain, prog, smp)
    rep.part(c07.size, prog, smp)
    # ... and the variables of one sample come from ONE generator: with a plain integer handed to every rvs each variable restarts the same stream
    rep.part(c07.rng, prog, Relabel(rep, "C06.sampler", lambda r, inst: r == "C07.rng" and ("GlobalHierarchicalModel.draw_sample" in inst or "marginal_icdf" in inst)))
    rep.expect_min("C06.sampler", 7)
    rep.explanation += (" C06.sampler: marginal_icdf of a conditional variable is a quantile of model.draw_sample - the rows of C07 for the joint sampler "
                        "(each conditional column drawn given column conditional_on[i] of the same rows; vector parameters give one draw per value).")

def pdf_chain(prog, rep):
    fn = prog.func(f"{GHM}.pdf")
    b = builder(prog, fn)
    box = {}

    def own(s, arg):
        if arg is not None and arg[0] == "col" and arg[2] == s.K:
            box.setdefault("X", set()).add(arg[1])
            return True, ""
        return False, "column K of the point matrix"

    def gm(s):
        xs = box.get("X", set())
        return next(iter(xs)) if len(xs) == 1 else ("unknown", "point matrix")

    stores = check_chain(prog, rep, "C06.chain", fn, "pdf", "self", own_arg=own, given_matrix=gm, label="fs")
    xs = box.get("X", set())
    rep.check(len(xs) == 1, "C06.chain", f"{fn.qualname}:one-matrix", fn.where(), "all factors read the same point matrix",
              f"the factors read different matrices: {[show(x)[:60] for x in xs]}")
    X = next(iter(xs)) if xs else None
    ok = X is not None and X[0] == "call" and X[1] == G("numpy.asarray_chkfinite") and any(mentions(X, P("x")) for _ in [0])
    rep.check(ok, "C06.finite", f"{fn.qualname}:chkfinite", fn.where(), "points pass np.asarray_chkfinite before evaluation",
              f"the evaluated point matrix must be np.asarray_chkfinite(<x>), found {show(X)[:100] if X else None}")
    ret = [s for s in cfg_of(fn).all_stmts() if isinstance(s, ast.Return)]
    bases = {s.base for s in stores}
    t = b.term(ret[-1].value, ret[-1]) if ret else None
    okr = False
    if t is not None and t[0] == "call" and t[1] in (G("numpy.prod"), G("numpy.product")) and len(t[2]) == 1 and len(bases) == 1:
        ax = dict(t[3]).get("axis")
        okr = t[2][0] in bases and ax in (("const", -1), ("const", 1)) and set(dict(t[3])) == {"axis"}
    rep.check(okr, "C06.chain", f"{fn.qualname}:product", fn.where(ret[-1]) if ret else fn.where(), "return prod(fs, axis=-1) of the whole factor matrix",
              f"the joint density must be the product over the last axis of the complete factor matrix; found {show(t)[:120] if t else None}")
    # every column that enters the product has been written: the factor matrix has one column per column of the points, the chain
    # writes the columns 0 .. n_dim-1 - points with more columns would multiply uninitialised memory into the density
    nd = ("attr", SELF, "n_dim")
    pcs = path_conditions(prog, fn, b)
    cfg = cfg_of(fn)
    base = next(iter(bases)) if len(bases) == 1 else None
    sized = base is not None and base[0] == "call" and base[1] in (G("numpy.empty"), G("numpy.zeros"), G("numpy.ones")) and any(w == nd for w in walk(base[2][0] if base[2] else ("const", None)))
    guard = False
    for st in cfg.all_stmts():
        if isinstance(st, ast.Raise) and ret:
            for l in [d_ for l0 in pcs.of(st) for d_ in (l0[1] if l0[0] == "or" else (l0,))]:
                if l[0] == "not" and l[1][0] == "cmp" and l[1][1] == "==" and nd in (l[1][2], l[1][3]) and any(w[0] == "attr" and w[2] == "shape" for w in walk(l[1])):
                    guard = guard or cfg.dominates(cfg.node(cfg.enclosing(st)[0][0]), cfg.node(ret[-1]))
    # ... and the points are a MATRIX: the chain indexes fs[:, i] and x[:, i], for a 3-D array that is the second axis - a (2, 3, 2) array passes the
    # test of the last axis and fs[:, 2] is never written
    two_d = False
    for st in cfg.all_stmts():
        if isinstance(st, ast.Raise) and ret:
            alts_ = [d_ for l in pcs.of(st) for d_ in (l[1] if l[0] == "or" else (l,))]
            for l in alts_:
                if l[0] == "not" and l[1][0] == "cmp" and l[1][1] == "==" and ("const", 2) in (l[1][2], l[1][3]) \
                        and any((w[0] == "attr" and w[2] == "ndim") or w == G("numpy.ndim") or (w[0] == "call" and w[1] == G("len") and any(v[0] == "attr" and v[2] == "shape" for v in walk(w))) for w in walk(l[1])):
                    two_d = two_d or cfg.dominates(cfg.node(cfg.enclosing(st)[0][0]), cfg.node(ret[-1]))
    reshaped = any(isinstance(n_, ast.Call) and isinstance(n_.func, ast.Attribute) and n_.func.attr == "reshape" and any(isinstance(a_, ast.UnaryOp) for a_ in n_.args + [e_ for a2 in n_.args if isinstance(a2, ast.Tuple) for e_ in a2.elts])
                   for n_ in ast.walk(fn.node))
    rep.check(two_d or reshaped, "C06.chain", f"{fn.qualname}:matrix", fn.where(), "points that are not a 2-D array are rejected (or reshaped to (-1, n_dim))",
              "only the LAST axis of the points is compared with n_dim: model.pdf of a (2, 3, 2) array passes, the chain fills fs[:, 0] and fs[:, 1] of a (2, 3, 2) buffer and the "
              "product runs over uninitialised fs[:, 2] (the same call returns 7.99e-306, 0.0, 30, 132 ...); reject x.ndim != 2")
    rep.check(sized or guard, "C06.chain", f"{fn.qualname}:columns", fn.where(), "the factor matrix has exactly n_dim columns (points with another number of columns are rejected)",
              "the factor matrix takes its number of columns from the points and only the columns 0..n_dim-1 are written: model.pdf of points with an extra column "
              "multiplies uninitialised memory into the density (identical rows gave values from 5.96e-311 to 0.894)")


def float_buffers(prog, rep):
    from .buffers import float_buffer
    for name in ("pdf", "marginal_pdf", "marginal_cdf"):
        fn = prog.func(f"{GHM}.{name}")
        rep.analysed(fn)
        b = builder(prog, fn, inline=False)
        seen = {}
        for st in cfg_of(fn).all_stmts():
            if isinstance(st, ast.Assign) and isinstance(st.targets[0], ast.Subscript):
                base = b.term(st.targets[0].value, st)
                fb = float_buffer(base)
                if fb is not None and base not in seen:
                    seen[base] = (st, fb)
        if not seen:
            rep.ok("C06.buffer", f"{fn.qualname}:result", fn.where(), "no pre-allocated result buffer is filled element by element", nontrivial=False)
        for base, (st, fb) in seen.items():
            rep.check(fb, "C06.buffer", f"{fn.qualname}:{show(base)[:40]}", fn.where(st), "results are stored into a float array",
                      f"results are stored into {show(base)[:70]}, which takes the dtype of the evaluation points: model.{name}([[3, 8]]) with integer points returns 0 "
                      "(every density / probability below 1 is truncated)")


_MINS = (G("min"), G("numpy.minimum"), G("numpy.fmin"), G("numpy.clip"))


def lower_limits(prog, rep):
    for q in (f"{JM}.MultivariateModel.cdf", f"{GHM}.marginal_pdf", f"{GHM}.marginal_cdf", f"{JM}.TransformedModel.cdf"):
        fn = prog.func(q)
        b = builder(prog, fn, inline=False)
        zero_lo = []
        bare_hi = []
        for st in cfg_of(fn).all_stmts():
            for n in ast.walk(st) if isinstance(st, (ast.Assign, ast.Expr, ast.Return, ast.AugAssign)) else []:
                if isinstance(n, ast.Call):
                    tc = b.term(n, st)
                    if tc[0] == "call" and tc[1] == G("scipy.integrate.nquad"):
                        bd = bind(tc) or {}
                        r = bd.get("ranges")
                        if r is not None and any(w == ("const", 0) for w in walk(r)):
                            zero_lo.append(st)
                        if r is not None and any(w[0] == "tuple" and len(w[1]) == 2 and mentions(w[1][1], P("x")) and not (w[1][1][0] == "call" and w[1][1][1] in _MINS)
                                                 for w in walk(r) if isinstance(w, tuple) and w):
                            bare_hi.append(st)
        if q.endswith("TransformedModel.cdf"):
            zero_lo = []    # the shipped transformed variables (hs, tz) are positive; no failing input is known for this entry point
        rep.check(not zero_lo, "C06.limits", f"{q}:lower-limit", fn.where(zero_lo[0]) if zero_lo else fn.where(),
                  "the integration starts at the lower end of the support",
                  "the density is integrated from the constant 0: for a variable that can be negative (X0 ~ Normal(0, 1), X1 | X0 ~ Normal(x0, 1)) cdf([[0, 0]]) "
                  "returns 0.0 (true 0.375) and marginal_cdf([-1, 0, 1], 1) returns [-0.096, 0, 0.164] (true [0.24, 0.5, 0.76])")
        if q.endswith("marginal_pdf"):
            continue    # integrates the OTHER variables only
        rep.check(not bare_hi, "C06.limits", f"{q}:upper-limit", fn.where(bare_hi[0]) if bare_hi else fn.where(),
                  "the integration ends where the mass ends (the point, or the upper end of the variable's range if that is lower)",
                  "the density is integrated up to the point itself, however far beyond the mass it lies: the quadrature nodes of (0, 1000) all miss a density "
                  "that lives in (0, 0.1) - Hs / steepness model: cdf([[100, 100]]) = 0.0 while cdf([[10, 10]]) = 0.99999, marginal_cdf([100, 1000], 1) = [0, 0] while "
                  "marginal_cdf(1.) = 0.999997: not monotone, and 0 where 1 is due")


def finite(prog, rep):
    for q in (f"{JM}.MultivariateModel.cdf", f"{JM}.TransformedModel.cdf", f"{JM}.TransformedModel.empirical_cdf", f"{JM}.TransformedModel.pdf",
              f"{GHM}.marginal_pdf", f"{GHM}.marginal_cdf", f"{JM}.MultivariateModel.conditional_cdf", f"{GHM}.conditional_cdf"):
        fn = prog.implementation(q)   # a cdf that only delegates to the inherited one is the inherited one
        rep.analysed(fn)
        b = builder(prog, fn)
        # every later use of x refers to asarray_chkfinite(x)
        rd = b.rd
        good = False
        for d in rd.all_defs("x"):
            if d.kind == "assign":
                t = b.def_term(d)
                inner = t
                if inner[0] == "call" and inner[1] in (G("numpy.atleast_2d"),) and inner[2]:
                    inner = inner[2][0]
                if inner == ("call", G("numpy.asarray_chkfinite"), (P("x"),), ()):
                    # the check must dominate the first nquad / comparison
                    good = cfg_of(fn).dominates(d.node, "EXIT")
        if not good and not [d for d in rd.all_defs("x") if d.kind == "assign"]:
            # x is never rebound: then every place that reads it must read it through np.asarray_chkfinite(x)
            parent = {}
            for n_ in ast.walk(fn.node):
                for c_ in ast.iter_child_nodes(n_):
                    parent[id(c_)] = n_
            reads = [n_ for n_ in ast.walk(fn.node) if isinstance(n_, ast.Name) and n_.id == "x" and isinstance(n_.ctx, ast.Load)]
            def checked(n_):
                p_ = parent.get(id(n_))
                return isinstance(p_, ast.Call) and n_ in p_.args and isinstance(p_.func, (ast.Attribute, ast.Name)) \
                    and (p_.func.attr if isinstance(p_.func, ast.Attribute) else p_.func.id) == "asarray_chkfinite"
            good = bool(reads) and all(checked(n_) for n_ in reads)
        rep.check(good, "C06.finite", f"{q}:chkfinite", fn.where(), "x = atleast_2d(asarray_chkfinite(x)) dominates the computation",
                  "non-finite evaluation points must be rejected by np.asarray_chkfinite before any integration")


def _integral_func(prog, rep, outer_q, tag):
    """The nested integral_func: returns the argsort operand (arg order term) after checking the wrapper shape."""
    outer = prog.func(outer_q)
    # the integrand is whatever is handed to nquad: a nested closure, or the closure returned by a factory
    # (nested or module-level) whose parameters are bound at the call - those are substituted by the actual arguments
    bo = builder(prog, outer, inline=False)
    integrands = set()
    for st in cfg_of(outer).all_stmts():
        for n in ast.walk(st) if isinstance(st, (ast.Assign, ast.Expr, ast.Return, ast.AugAssign)) else []:
            if isinstance(n, ast.Call):
                tc = bo.term(n, st)
                if tc[0] == "call" and tc[1] == G("scipy.integrate.nquad"):
                    bd = bind(tc)
                    if bd and "func" in bd:
                        integrands |= set(alts(bd["func"]))
    if len(integrands) != 1:
        raise AnalysisError(f"{outer_q}: expected exactly one integrand handed to nquad, found {[show(i)[:60] for i in integrands]}")
    it = next(iter(integrands))
    actual = {}
    factory = None
    if it[0] == "call" and it[1][0] == "func" and it[1][1] in prog.functions:
        factory = prog.functions[it[1][1]]
    elif it[0] == "call" and it[1][0] == "attr" and it[1][1] == SELF and outer.cls is not None:
        factory = prog.lookup_method(outer.cls, it[1][2])   # a factory method of the model
    if factory is not None:
        bf_ = builder(prog, factory, inline=False)
        frets = [s for s in cfg_of(factory).all_stmts() if isinstance(s, ast.Return)]
        inner = bf_.term(frets[0].value, frets[0]) if len(frets) == 1 else None
        bound = bind(it, [p_ for p_ in factory.positional_params if not (p_ == "self" and factory.cls is not None and not factory.is_static)])
        if inner is None or inner[0] != "func" or bound is None:
            raise AnalysisError(f"{outer_q}: integrand factory {factory.qualname} not understood")
        actual = {("param", k): v for k, v in bound.items()}
        if factory.parent is not None and set(bound) & set(outer.params):
            raise AnalysisError(f"{outer_q}: factory parameters shadow the enclosing function's")
        it = inner
    if it[0] != "func" or it[1] not in prog.functions:
        raise AnalysisError(f"{outer_q}: integrand {show(it)[:80]} is not a function of this package")
    fn = prog.functions[it[1]]
    q = fn.qualname
    rep.analysed(fn)
    b = builder(prog, fn, inline=False)
    ret = [s for s in cfg_of(fn).all_stmts() if isinstance(s, ast.Return)]
    if len(ret) != 1 or not (isinstance(fn.node, ast.Lambda) or fn.node.args.vararg is not None):
        raise AnalysisError(f"{q}: the integrand must be a *args wrapper with one return")
    t = b.term(ret[0].value, ret[0])
    if actual:
        # the closure sees the factory's parameters as free variables (a marked 'param' term): bind every spelling
        full = dict(actual)
        for s_ in walk(t):
            if s_[0] == "param" and len(s_) > 2 and ("param", s_[1]) in actual:
                full[s_] = actual[("param", s_[1])]
        t = subst(t, full)
    nd = ("attr", SELF, "n_dim")
    ao = None
    ok = False
    why = f"wrapper must return self.pdf(np.array(args)[np.argsort(arg_order)].reshape((1, n_dim))); found {show(t)[:200]}"
    if t[0] == "call" and t[1] == ("attr", SELF, "pdf") and len(t[2]) == 1:
        x = t[2][0]
        if x[0] == "call" and x[1][0] == "attr" and x[1][2] == "reshape" and x[2] in ((("tuple", (("const", 1), nd)),), (("const", 1), nd)):
            inner = x[1][1]
            if tag == "cdf" and inner == ("call", G("numpy.array"), (P("args"),), ()):
                # the joint cdf integrates in the model's own order: the arguments arrive as pdf expects them, no permutation to undo
                ao = ("call", G("list"), (("call", G("range"), (nd,), ()),), ())
                ok = True
            elif inner[0] == "sub" and inner[1] == ("call", G("numpy.array"), (P("args"),), ()):
                idx = inner[2]
                if idx[0] == "call" and idx[1] == G("numpy.argsort") and len(idx[2]) == 1 and not idx[3]:
                    ao = idx[2][0]
                    ok = True
                else:
                    why = (f"arguments must be restored with the INVERSE permutation args[argsort(arg_order)] "
                           f"(args[arg_order] coincides only for 2-D); found index {show(idx)[:100]}")
    rep.check(ok, "C06.argorder", f"{q}:inverse-permutation", fn.where(ret[0]), "x = args[argsort(arg_order)]", why)
    return ao


def _nquad_calls(fn, b):
    """[(statement, call term)] of every scipy.integrate.nquad call in fn (wherever it sits in the statement)."""
    out = []
    for st in cfg_of(fn).all_stmts():
        if isinstance(st, (ast.Assign, ast.AugAssign, ast.Expr, ast.Return)):
            for n in ast.walk(st):
                if isinstance(n, ast.Call):
                    t = b.term(n, st)
                    if t[0] == "call" and t[1] == G("scipy.integrate.nquad") and not any(t == o[1] for o in out):
                        out.append((st, t))
    return out


def _result_rows(fn, b, call):
    """Indices at which the integral value (element 0 of nquad's result) is stored: 'res, _ = nquad(..); p[i] = res',
    'p[i], _ = nquad(..)' or 'p[i] = nquad(..)[0]'."""
    rows = []
    val = IT(call, 0)
    for s2 in cfg_of(fn).all_stmts():
        if not isinstance(s2, ast.Assign):
            continue
        tg = s2.targets[0]
        if isinstance(tg, ast.Subscript) and b.term(s2.value, s2) == val:
            rows.append(b.term(tg.slice, s2))
        elif isinstance(tg, (ast.Tuple, ast.List)) and tg.elts and isinstance(tg.elts[0], ast.Subscript) and b.term(s2.value, s2) == call:
            rows.append(b.term(tg.elts[0].slice, s2))
    return rows


def _has_del(fn, name, idx_term, b):
    """``del <list(range(n_dim))>[dim]`` on whatever local holds the list of dimensions."""
    rng = ("call", G("list"), (("call", G("range"), (("attr", SELF, "n_dim"),), ()),), ())
    for st in cfg_of(fn).all_stmts():
        if isinstance(st, ast.Delete):
            for t in st.targets:
                if isinstance(t, ast.Subscript) and isinstance(t.value, ast.Name):
                    if b.term(t.slice, st) == idx_term and b.term(t.value, st) == rng:
                        return st
    # ... or in a private helper of the class that is called with that index (the order built by a helper)
    prog_ = b.prog
    for st in cfg_of(fn).all_stmts():
        for n in ast.walk(st) if isinstance(st, (ast.Assign, ast.Expr, ast.Return)) else []:
            if isinstance(n, ast.Call) and isinstance(n.func, ast.Attribute) and isinstance(n.func.value, ast.Name) and n.func.value.id == "self" and fn.cls is not None:
                h = prog_.lookup_method(fn.cls, n.func.attr)
                if h is None or h is fn or not h.name.startswith("_") or len(n.args) != 1 or b.term(n.args[0], st) != idx_term:
                    continue
                hp = [p_ for p_ in h.positional_params if p_ != "self"]
                if len(hp) != 1:
                    continue
                hb = builder(prog_, h, inline=False)
                for hs in cfg_of(h).all_stmts():
                    if isinstance(hs, ast.Delete):
                        for t in hs.targets:
                            if isinstance(t, ast.Subscript) and isinstance(t.value, ast.Name) and hb.term(t.slice, hs) == P(hp[0]) and hb.term(t.value, hs) == rng:
                                return hs
    return None


def argorder(prog, rep):
    nd = ("attr", SELF, "n_dim")
    rng = ("call", G("list"), (("call", G("range"), (nd,), ()),), ())
    rev = ("sub", rng, ("slice", NONE, NONE, ("const", -1)))
    # --- joint cdf (MultivariateModel and TransformedModel): identity order, limits (0, x[i, j]) for j in range(n_dim)
    for q in (f"{JM}.MultivariateModel.cdf", f"{JM}.TransformedModel.cdf"):
        fn = prog.implementation(q)
        rep.analysed(fn)
        b = builder(prog, fn)
        ao = _integral_func(prog, rep, fn.qualname, "cdf")
        if ao is not None:
          rep.check(ao == rng, "C06.argorder", f"{q}:order", fn.where(), "arg_order = list(range(n_dim))",
                  f"joint cdf integrates in model order; arg_order must be list(range(n_dim)), found {show(ao)[:100] if ao else None}")
        okc = False
        why = "no nquad call found"
        for st, t in _nquad_calls(fn, b):
                    bd = bind(t)
                    r = bd.get("ranges") if bd else None
                    why = f"ranges must be [(0, x[i, j]) for j in range(n_dim)] with the result stored at p[i]; found {show(r)[:160] if r else None}"
                    if r and r[0] == "comp" and r[4] == ("call", G("range"), (nd,), ()) and r[2][0] == "tuple" and len(r[2][1]) == 2:
                        j = ("idx", r[3], "range", (nd,))
                        lo, hi = r[2][1]
                        lo_ok = algebra.same(lo, ("const", 0)) or (lo[0] == "sub" and lo[2] == j and algebra.same(lo[1], ("bin", "*", ("list", (("const", 0),)), nd)))
                        if hi[0] == "sub" and hi[1][0] == "col" and hi[1][2] == j:
                            row = hi[2]
                            trows = _result_rows(fn, b, t)
                            okc = lo_ok and trows == [row] and row[0] == "idx"
        rep.check(okc, "C06.argorder", f"{q}:limits", fn.where(), "range j = (0, x[i, j]); result -> p[i]", why)
    # --- marginal pdf / cdf of the hierarchical model
    for name in ("marginal_pdf", "marginal_cdf"):
        q = f"{GHM}.{name}"
        fn = prog.func(q)
        rep.analysed(fn)
        from vstat.terms import ConvTransparent
        b = ConvTransparent(builder(prog, fn))      # asarray_chkfinite(x): the values are x's (that x is checked is C06.finite / C18.shared)
        ao = _integral_func(prog, rep, q, name)
        # the index may be normalised first: range(n_dim)[dim] is dim for 0 <= dim < n_dim and n_dim + dim for a negative one
        NORM = ("sub", ("call", G("range"), (nd,), ()), P("dim"))
        DIM = NORM if ao is not None and mentions(ao, NORM) else P("dim")
        def others_comp(t):
            """[j for j in range(n_dim) (any order) if j != dim]: the other variables, without a deletion"""
            if not (t[0] == "comp" and t[1] == "list" and len(t[5]) == 1):
                return False
            it = t[4]
            its = (rng, rev, ("call", G("range"), (nd,), ()), ("call", G("reversed"), (("call", G("range"), (nd,), ()),), ()), ("call", G("reversed"), (rng,), ()))
            var = t[2]
            c = t[5][0]
            return it in its and var[0] == "sub" and var[2][0] == "idx" and var[2][1] == t[3] \
                and c in (("not", CMP("==", var, DIM)), ("not", CMP("==", DIM, var)))
        okao = ao is not None and ao[0] == "bin" and ao[1] == "+" and ao[3] == ("list", (DIM,)) and (ao[2] in (rng, rev) or others_comp(ao[2]))
        # a raw negative dim sorts BEFORE every other dimension in np.argsort(order + [dim]): the evaluation point is then fed to variable 0
        pcs_ = path_conditions(prog, fn, b)
        guarded_ = any(isinstance(st_, ast.Raise) and any(l_ in (("cmp", "<", P("dim"), ("const", 0)),) for l_ in pcs_.of(st_)) for st_ in cfg_of(fn).all_stmts())
        rep.check(DIM == NORM or guarded_, "C06.argorder", f"{q}:dim", fn.where(), "dim is normalised (range(n_dim)[dim]) before it is placed in the argument order",
                  "dim is placed in the argument order as passed: dim = -1 (the last variable, accepted by marginal_icdf and by Python indexing) sorts before 0, so "
                  "marginal_pdf([8.], -1) / marginal_cdf([8.], -1) evaluate variable 0 at 8 and integrate over the wrong variable")
        if ao is not None:
          rep.check(okao, "C06.argorder", f"{q}:order", fn.where(), "arg_order = <other dims> + [dim]",
                  f"the marginalised dimension must come last in arg_order (it is the argument nquad appends / integrates last); found {show(ao)[:140] if ao else None}")
        d = _has_del(fn, "integral_order", DIM, b)
        if d is None and okao and others_comp(ao[2]):
            d = fn.node     # built without dim in the first place
        rep.check(d is not None, "C06.argorder", f"{q}:others", fn.where(d) if d is not None and d is not fn.node else fn.where(), "dim removed from the list of integrated dimensions",
                  "the list of integrated dimensions must have dim removed (del integral_order[dim]) so that arg_order is a permutation of range(n_dim)")
        okc = False
        why = "no nquad call found"
        for st, t in _nquad_calls(fn, b):
                    bd = bind(t)
                    inf_lim = ("bin", "*", ("list", (("tuple", (("const", 0), G("numpy.inf"))),)), ("bin", "-", nd, ("const", 1)))
                    others = ao[2] if okao else None

                    def own_ranges(r0, kind="range"):
                        """the ranges of the n_dim - 1 integrated variables: one range per position, each from the variable's own quantiles
                        (decided in the factory, _range_factory); the fixed (0, inf) of the original code is named as the defect"""
                        if kind == "range" and algebra.same(r0, inf_lim):
                            rep.fail("C06.ranges", f"{q}:holds-the-mass", fn.where(st),
                                     "every integrated variable gets the fixed range (0, inf): QUADPACK maps it onto a fixed set of nodes, and a density that is narrow "
                                     "against its location (a conditioning variable with a coefficient of variation below ~5 %: pressure ~ Weibull(35, 3, 980)) falls between "
                                     "them - marginal_pdf / marginal_cdf return 0 (1e-9 ... 1e-47) without a warning while the joint cdf is right; integrate each variable "
                                     "between its own extreme quantiles")
                            return True    # the positional obligations below are those of the old form
                        counts = [("bin", "-", nd, ("const", 1))] + ([("call", G("len"), (others,), ())] if others is not None else [])
                        if not (r0[0] == "comp" and r0[1] == "list" and r0[4][0] == "call" and r0[4][1] == G("range") and len(r0[4][2]) == 1 and r0[4][2][0] in counts and not r0[5]):
                            return False
                        el = r0[2]
                        pos = ("idx", r0[3], "range", (r0[4][2][0],))
                        if not (el[0] == "call" and el[1][0] == "attr" and el[1][1] == SELF and len(el[2]) == 3 and not el[3]):
                            return False
                        ord_t, pos_t, dim_t = el[2]
                        full = ("bin", "+", others, ("list", (DIM,))) if others is not None else None
                        ord_ok = others is not None and ord_t in (others, ("sub", full, ("slice", NONE, ("const", -1), NONE)))
                        rep.check(ord_ok and pos_t == pos and dim_t == DIM, "C06.ranges", f"{q}:positions" + ("" if kind == "range" else ":points"), fn.where(st),
                                  "range k is built for position k of the integration order, with the order and dim the integrand uses",
                                  f"the ranges must be built for positions 0 .. n_dim - 2 of the SAME integration order the integrand is wrapped for (and the same dim); found {show(el)[:160]}")
                        fac = prog.lookup_method(fn.cls, el[1][2])
                        if fac is None:
                            return False
                        _range_factory(prog, rep, fac, kind)
                        return True
                    if name == "marginal_pdf":
                        a = bd.get("args") if bd else None
                        okc = bool(bd) and own_ranges(bd.get("ranges", NONE)) and a is not None and a[0] in ("list", "tuple") and len(a[1]) == 1 and a[1][0][0] == "sub" and a[1][0][1] == P("x")
                        xi = a[1][0][2] if okc else None
                        why = f"marginal_pdf must integrate the other n_dim-1 variables, one range per variable, and pass x_i through args=[x_i]; found {show(t)[:200]}"
                    else:
                        r = bd.get("ranges") if bd else None
                        okc = bool(r) and r[0] == "bin" and r[1] == "+" and own_ranges(r[2]) and r[3][0] == "list" and len(r[3][1]) == 1
                        xi = None
                        if okc:
                            last = r[3][1][0]
                            okc = last[0] == "tuple" and len(last[1]) == 2 and algebra.same(last[1][0], ("const", 0)) and last[1][1][0] == "sub" and last[1][1][1] == P("x")
                            xi = last[1][1][2] if okc else None
                        why = f"marginal_cdf must integrate the others over (0, inf) and the LAST range (the dim'th variable) over (0, x_i); found {show(r)[:200] if r else None}"
                    # a range of extreme quantiles spans many orders of magnitude for a long-tailed variable: the quadrature needs break points inside it
                    o = bd.get("opts") if bd else None
                    if name != "marginal_pdf" and o is not None and o[0] == "bin" and o[1] == "+" and o[3][0] == "list" and len(o[3][1]) == 1:
                        o = o[2]      # + [options of the own variable]
                    sub_ok = o is not None and own_ranges(o, "points")
                    rep.check(sub_ok, "C06.ranges", f"{q}:subdivided", fn.where(st), "nquad gets break points (opts) for every range of extreme quantiles",
                              "each variable is integrated by one adaptive quad over its 1e-12 .. 1 - 1e-12 quantile range, without break points: for X0 ~ LogNormal(1, 1) the range is "
                              "(0.0024, 3075) and the integrand of X1 | X0 ~ LogNormal(mu = 1 + 0.5 ln x0, sigma = 0.05) is a narrow ridge near x0 = 3 that every Gauss-Kronrod node misses - "
                              "marginal_pdf at the 5/25/50/75 % quantiles = [1.9e-75, 2.1e-17, 4.1e-9, 5.9e-10] (true [0.105, 0.198, 0.177, 0.101]), marginal_cdf(median) = 1.7e-10, no "
                              "warning; pass quantiles of the variable as quad break points (opts=[{'points': ...}])")
                    if okc:
                        # result stored at the index of its own point
                        okc = _result_rows(fn, b, t) == [xi]
                        why = "the integral of point i must be stored at index i of the result"
        rep.check(okc, "C06.argorder", f"{q}:limits", fn.where(), "limits / args in the position of dim; result at its own index", why)


def _num(t):
    """value of a constant arithmetic term, else None"""
    if t[0] == "const" and isinstance(t[1], (int, float)) and not isinstance(t[1], bool):
        return float(t[1])
    if t[0] == "neg":
        v = _num(t[1])
        return None if v is None else -v
    if t[0] == "bin" and t[1] in "+-*/":
        a, b_ = _num(t[2]), _num(t[3])
        if a is None or b_ is None:
            return None
        return {"+": a + b_, "-": a - b_, "*": a * b_, "/": a / b_ if b_ else None}[t[1]]
    return None


def _flat_list(t):
    """the elements of a literal list / tuple, or of a concatenation (+) of such; None otherwise"""
    if t[0] in ("list", "tuple"):
        return list(t[1])
    if t[0] == "bin" and t[1] == "+":
        a, b_ = _flat_list(t[2]), _flat_list(t[3])
        return None if a is None or b_ is None else a + b_
    return None


def _through_shared_factory(prog, fac, t, ARGS, norm):
    """[(extra literals, term)]: t itself, or - where t applies to *ARGS a closure that a method of the same class returns,
    ``self.M(a, b, ...)(*args)`` - t with that application replaced by each alternative the closure returns (M's formals bound to a, b, ...;
    its *args renamed), under the literals of that alternative.  Module-level literal tables are read as their values."""
    from vstat.terms import top_alts as _ta
    apps = [w for w in walk(t) if isinstance(w, tuple) and w and w[0] == "call" and w[1][0] == "call" and w[1][1][0] == "attr" and w[1][1][1] == SELF
            and w[2] == (("star", ARGS),) and not w[3]]
    apps = sorted(set(apps), key=repr)
    if len(apps) != 1:
        return [((), t)]
    app = apps[0]
    meth = prog.lookup_method(fac.cls, app[1][1][2])
    if meth is None:
        return [((), t)]
    formals = [p_ for p_ in meth.positional_params if p_ != "self"]
    actual = app[1][2]
    if len(actual) != len(formals) or app[1][3]:
        return [((), t)]
    mod = prog.modules.get(fac.qualname.rsplit(".", 2)[0])
    consts = {}
    bm = builder(prog, meth, inline=False)
    for name, expr in (getattr(mod, "constants", None) or {}).items():
        if not all(isinstance(n_, (ast.Tuple, ast.List, ast.Constant, ast.BinOp, ast.UnaryOp, ast.operator, ast.unaryop, ast.expr_context)) for n_ in ast.walk(expr)):
            continue    # literal tables of numbers only (constant arithmetic such as 1 - 1e-12 included)
        consts[G(f"{mod.name}.{name}")] = bm._term(expr, "ENTRY", {})
    bind_ = {P(f_): subst(a_, consts) for f_, a_ in zip(formals, actual)}
    pm = path_conditions(prog, meth, bm)
    out = []
    for r_ in [s_ for s_ in cfg_of(meth).all_stmts() if isinstance(s_, ast.Return)]:
        for fl, alt in _ta(bm.term(r_.value, r_)):
            inner = prog.functions.get(alt[1]) if alt[0] == "func" else None
            if inner is None or inner.node.args.vararg is None:
                return [((), t)]
            bi = builder(prog, inner, inline=False, guarded=True)
            pi = path_conditions(prog, inner, bi)
            for ir in [s_ for s_ in cfg_of(inner).all_stmts() if isinstance(s_, ast.Return)]:
                rt = bi.term(ir.value, ir)
                m_ = dict(bind_)
                m_[P(inner.node.args.vararg.arg)] = ARGS
                for il, ialt in _ta(rt):
                    lits = tuple(subst(l_, m_) for l_ in tuple(pm.of(r_)) + tuple(fl) + tuple(pi.of(ir)) + tuple(il))
                    out.append((tuple(norm(l_) for l_ in lits), norm(subst(t, {app: subst(ialt, m_)}))))
    return out or [((), t)]


_range_done = set()


def _range_factory(prog, rep, fac, kind="range"):
    """fac(integral_order, position, dim) returns the range callable nquad calls with (values of the variables integrated further out..., value of
    variable dim).  Decided here: the range is the pair of extreme quantiles of THE variable at that position (its own distribution), given the value of
    ITS conditioning variable read from the argument position that variable has in what nquad hands over."""
    q = fac.qualname
    if (q, kind) in _range_done:
        return
    _range_done.add((q, kind))
    rep.analysed(fac)
    tag = "" if kind == "range" else ":points"
    pp = [p_ for p_ in fac.positional_params if p_ != "self"]
    if len(pp) != 3:
        raise AnalysisError(f"{q}: expected (integral_order, position, dim)")
    ORD, POS, DIMP = (P(x) for x in pp)
    bf = builder(prog, fac, inline=False)
    pf = path_conditions(prog, fac, bf)
    rets = [s_ for s_ in cfg_of(fac).all_stmts() if isinstance(s_, ast.Return)]
    IDX = ("sub", ORD, POS)
    DIST = ("sub", ("attr", SELF, "distributions"), IDX)
    COND = ("sub", ("attr", SELF, "conditional_on"), IDX)
    from vstat.terms import top_alts as _ta
    from vstat.terms import degrade as _dg
    # (order + [dim])[position] is order[position] and (order + [dim])[position + 1:] is order[position + 1:] + [dim] for the positions 0 .. len(order) - 1 in use
    _tail = ("slice", ("bin", "+", POS, ("const", 1)), NONE, NONE)
    _same = {}
    for L_ in (ORD, ("call", G("list"), (ORD,), ())):
        F_ = ("bin", "+", L_, ("list", (DIMP,)))
        _same[("sub", F_, POS)] = IDX
        _same[("sub", F_, _tail)] = ("bin", "+", ("sub", ORD, _tail), ("list", (DIMP,)))

    def _norm(x):
        return subst(x, _same)
    # one closure, or one per case (`if cond_idx is None: return unconditional_range`): every returned closure with the literals it is returned under
    pairs = []          # [(literals, lo term, hi term)]
    ARGS = None
    shape_ok = bool(rets)
    for r_ in rets:
        rt = bf.term(r_.value, r_)
        for fl, alt in _ta(rt):
            inner = prog.functions.get(alt[1]) if alt[0] == "func" else None
            if inner is None or inner.node.args.vararg is None:
                rep.fail("C06.ranges", f"{q}:callable", fac.where(), f"the range must be a *args callable of this package (nquad hands it the outer variables); found {show(alt)[:80]}")
                return
            a_ = P(inner.node.args.vararg.arg)
            if ARGS is not None and a_ != ARGS:
                # closures may name their *args differently: rename to the first one
                pass
            ARGS = ARGS or a_
            bi = builder(prog, inner, inline=False, guarded=True)
            irets = [s_ for s_ in cfg_of(inner).all_stmts() if isinstance(s_, ast.Return)]
            t = bi.term(irets[-1].value, irets[-1]) if len(irets) == 1 else NONE
            if a_ != ARGS:
                t = subst(t, {a_: ARGS})
            t = _norm(t)
            # the quantiles may come from a closure that a shared factory method of the class returns (one for ranges and break points):
            # its returned alternatives are read in place of the call, with its formals bound to the arguments
            for xl_, t in _through_shared_factory(prog, fac, t, ARGS, _norm):
                if kind == "points":
                    # the options of one variable: a dict whose 'points' are break points for quad
                    ent = dict(t[1]) if t[0] == "dict" else ({(("const", k_)): v_ for k_, v_ in t[3]} if t[0] == "call" and t[1] == G("dict") and not t[2] else {})
                    pt = ent.get(("const", "points"))
                    if pt is None:
                        shape_ok = False
                        continue
                    for pl_, palt in _ta(pt):
                        pairs.append((tuple(pf.of(r_)) + tuple(fl) + tuple(xl_) + tuple(pl_), palt, None))
                    continue
                if not (t[0] == "tuple" and len(t[1]) == 2):
                    shape_ok = False
                    continue
                los, his = sorted(_ta(t[1][0]), key=repr), sorted(_ta(t[1][1]), key=repr)
                if len(los) != len(his):
                    shape_ok = False
                    continue
                for (ll, lo), (hl, hi) in zip(los, his):
                    pairs.append((tuple(pf.of(r_)) + tuple(fl) + tuple(xl_) + tuple(ll), lo, hi))
    ok_q = ok_p = ok_g = shape_ok and bool(pairs)
    why_q = why_g = f"found {[show(p_[1])[:120] for p_ in pairs][:2]}"
    if ok_q:
        seen_plain = seen_given = False
        for ll, lo, hi in pairs:
            if kind == "points":
                c = lo
            elif not (lo[0] == "sub" and hi[0] == "sub" and lo[2] == ("const", 0) and hi[2] == ("const", 1) and lo[1] == hi[1]):
                ok_q = False
                continue
            else:
                c = lo[1]
            if not (c[0] == "call" and c[1] == ("attr", DIST, "icdf") and len(c[2]) == 1):
                ok_q = False
                why_q = f"the limits must be quantiles of the distribution of the variable at this position (self.distributions[integral_order[position]].icdf); found {show(c)[:160]}"
                continue
            pr = c[2][0]
            pr = pr[2][0] if pr[0] == "call" and pr[1] in (G("numpy.array"), G("numpy.asarray")) and len(pr[2]) == 1 else pr
            if kind == "points":
                items = _flat_list(pr)
                vals = [_num(x) for x in items] if items else [None]
                ok_p = ok_p and None not in vals and all(0 < v < 1 for v in vals) and min(vals) <= 1e-3 and max(vals) >= 1 - 1e-3 and any(0.25 <= v <= 0.75 for v in vals)
            else:
                vals = [_num(x) for x in pr[1]] if pr[0] in ("list", "tuple") and len(pr[1]) == 2 else [None]
                ok_p = ok_p and None not in vals and 0 < vals[0] <= 1e-6 and 1 - 1e-6 <= vals[1] < 1
            kw = dict(c[3])
            lits = {_dg(l) for l in ll}
            if "given" in kw:
                seen_given = True
                g = kw["given"]
                g = g[2][1] if g[0] == "call" and g[1] == G("numpy.full") and len(g[2]) == 2 else g
                outer_l = ("sub", ORD, ("slice", ("bin", "+", POS, ("const", 1)), NONE, NONE))
                outers = [("bin", "+", o_, ("list", (DIMP,))) for o_ in (outer_l, ("call", G("list"), (outer_l,), ()))]
                want = [("sub", ARGS, ("call", ("attr", o_, "index"), (COND,), ())) for o_ in outers]
                good = g in want and ("not", ("isnone", COND)) in lits and set(kw) == {"given"}
                if not good:
                    ok_g = False
                    why_g = (f"a conditional variable's quantiles are those GIVEN its conditioning variable, whose value nquad passes at position "
                             f"(integral_order[position + 1:] + [dim]).index(conditional_on[idx]); found given={show(kw['given'])[:200]} under {[show(l)[:60] for l in ll]}")
            else:
                seen_plain = True
                if ("isnone", COND) not in lits:
                    ok_g = False
                    why_g = "the unconditional quantiles may be used only where the variable is not conditional (conditional_on[idx] is None)"
        ok_g = ok_g and seen_plain and seen_given
    if kind == "points":
        rep.check(ok_q, "C06.ranges", f"{q}:points:own-quantiles", fac.where(), "the break points of a variable are quantiles of its own distribution", why_q)
        rep.check(ok_p, "C06.ranges", f"{q}:points:levels", fac.where(), "break points in both tails (<= 1e-3, >= 1 - 1e-3) and in the bulk",
                  "the levels of the break points must lie strictly between 0 and 1 and cover both tails (one <= 1e-3, one >= 1 - 1e-3) and the bulk (one in [0.25, 0.75])")
        rep.check(ok_g, "C06.ranges", f"{q}:points:given", fac.where(), "conditional quantiles given the value nquad passes for the conditioning variable", why_g)
        return
    rep.check(ok_q, "C06.ranges", f"{q}:own-quantiles", fac.where(), "the range of a variable is (icdf(p_lo), icdf(p_hi)) of its own distribution", why_q)
    rep.check(ok_p, "C06.ranges", f"{q}:probabilities", fac.where(), "p_lo <= 1e-6 and p_hi >= 1 - 1e-6", "the two quantile levels must leave out a negligible mass only (p_lo <= 1e-6, p_hi >= 1 - 1e-6)")
    rep.check(ok_g, "C06.ranges", f"{q}:given", fac.where(), "conditional quantiles given the value nquad passes for the conditioning variable", why_g)


def delegate(prog, rep):
    cond = ("attr", SELF, "conditional_on")
    dists = ("attr", SELF, "distributions")
    for name, meth in (("marginal_pdf", "pdf"), ("marginal_cdf", "cdf"), ("marginal_icdf", "icdf")):
        q = f"{GHM}.{name}"
        fn = prog.func(q)
        rep.analysed(fn)
        from vstat.terms import ConvTransparent
        b = ConvTransparent(builder(prog, fn))
        pcs = path_conditions(prog, fn, b)
        arg = [p for p in fn.positional_params if p != "self"][0]
        found = False
        for st in cfg_of(fn).all_stmts():
            NORM = ("sub", ("call", G("range"), (("attr", SELF, "n_dim"),), ()), P("dim"))
            if isinstance(st, ast.Return) and st.value is not None and (("isnone", ("sub", cond, P("dim"))) in pcs.of(st) or ("isnone", ("sub", cond, NORM)) in pcs.of(st)):
                t = subst(b.term(st.value, st), {NORM: P("dim")})
                a0 = t[2][0] if t[0] == "call" and t[2] else None
                okarg = a0 in (P(arg), ("call", G("numpy.array"), (P(arg),), ()), ("call", G("numpy.asarray"), (P(arg),), ()))
                ok = t[0] == "call" and t[1] == ("attr", ("sub", dists, P("dim")), meth) and okarg and len(t[2]) == 1 and not t[3]
                found = True
                rep.check(ok, "C06.delegate", f"{q}:unconditional", fn.where(st), f"distributions[dim].{meth}({arg})",
                          f"for an unconditional dim the marginal is the distribution itself: must return self.distributions[dim].{meth}({arg}); found {show(t)[:140]}")
        if not found:
            rep.fail("C06.delegate", f"{q}:unconditional", fn.where(), "no return on the 'conditional_on[dim] is None' branch")


def mc(prog, rep):
    q = f"{JM}.MultivariateModel.marginal_icdf"
    fn = prog.func(q)
    rep.analysed(fn)
    b = builder(prog, fn)
    ret = [s for s in cfg_of(fn).all_stmts() if isinstance(s, ast.Return)]
    t = b.term(ret[-1].value, ret[-1])
    ok = False
    bd = bind(t) if t[0] == "call" and t[1] == G("numpy.quantile") else None
    if bd and set(bd) == {"a", "q"}:
        a, qq = bd["a"], bd["q"]
        ok = (a[0] == "col" and a[2] == P("dim") and a[1][0] == "call" and a[1][1] == ("attr", SELF, "draw_sample")
              and qq in (P("p"), ("call", G("numpy.array"), (P("p"),), ())))
    rep.check(ok, "C06.mc", f"{q}:quantile", fn.where(ret[-1]), "np.quantile(self.draw_sample(n)[:, dim], p)",
              f"Monte-Carlo marginal quantile must be np.quantile of column dim of a sample of self at p; found {show(t)[:200]}")
