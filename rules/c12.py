"""C12 - maximum-likelihood fits: reduction to scipy's optimiser (wiring only)."""
import ast

from vstat.loader import AnalysisError
from vstat.terms import builder, show, SELF, NONE, G, alts, walk, mentions, phi
from vstat.guards import path_conditions, exception_name
from vstat.cfg import cfg_of
from vstat import algebra, scipyinfo
from .distfam import families, SLOT_TABLE, P, A, expected_slot, DIST
from .fitcommon import MleInfo
from . import c11

EXPL = ("Reduction of C12 to scipy.stats.<dist>.fit: C12.dispatch (Distribution.fit sends 'mle' to _fit_mle(data), 'lsq'/'wlsq' to "
        "_fit_lsq(data, weights), anything else to ValueError - decided by a truth table over the method string, case-insensitively), "
        "C12.call (_fit_mle calls fit of the same scipy object as cdf with the unmodified data, shape start values positionally in slot "
        "order and loc=/scale= starts through the slot transforms), C12.assign (every non-constant slot of the result is written back "
        "through the inverse transform). Likelihood optimality, admissibility and scale equivariance are NOT decided: given these clauses "
        "they are properties of scipy's optimiser.")
ASSUME = ["scipy.stats.<dist>.fit maximises the likelihood for the parameterisation decided in C05.slots",
          "optimality / equivariance / finiteness of estimates are not decided by this check"]


def _eval(lit, m):
    """Evaluate a path literal for method.lower() == m."""
    low = ("call", ("attr", P("method"), "lower"), (), ())
    if lit[0] == "not":
        v = _eval(lit[1], m)
        return None if v is None else not v
    if lit[0] in ("and", "or"):
        vs = [_eval(x, m) for x in lit[1]]
        if lit[0] == "and":
            return False if any(v is False for v in vs) else (None if any(v is None for v in vs) else True)
        return True if any(v is True for v in vs) else (None if any(v is None for v in vs) else False)
    if lit[0] == "cmp" and lit[1] == "==":
        for a, b in ((lit[2], lit[3]), (lit[3], lit[2])):
            if a == low and b[0] == "const":
                return m == b[1]
    if lit[0] == "cmp" and lit[1] == "in" and lit[2] == low and lit[3][0] in ("tuple", "list", "set"):
        return any(x == ("const", m) for x in lit[3][1])
    return None


def dispatch(prog, rep):
    fn = prog.func(f"{DIST}.Distribution.fit")
    rep.analysed(fn)
    b = builder(prog, fn, inline=False)
    pcs = path_conditions(prog, fn, b)
    data, method, weights = P("data"), P("method"), P("weights")
    sites = {"mle": [], "lsq": [], "raise": []}
    for st in cfg_of(fn).all_stmts():
        if isinstance(st, (ast.Expr, ast.Return)) and isinstance(st.value, ast.Call):
            t = b.term(st.value, st)
            if t == ("call", ("attr", SELF, "_fit_mle"), (data,), ()):
                sites["mle"].append(st)
            elif t[0] == "call" and t[1] == ("attr", SELF, "_fit_lsq"):
                kw = dict(t[3])
                args = list(t[2]) + [kw.get("weights")] if "weights" in kw else list(t[2])
                if args == [data, weights]:
                    sites["lsq"].append(st)
                else:
                    rep.fail("C12.dispatch", "Distribution.fit:lsq-args", fn.where(st), f"_fit_lsq must receive (data, weights), got {show(t)[:100]}")
            elif t[0] == "call" and t[1][0] == "attr" and t[1][1] == SELF and t[1][2].startswith("_fit"):
                rep.fail("C12.dispatch", "Distribution.fit:args", fn.where(st), f"unexpected fitter call {show(t)[:100]}")
        if isinstance(st, ast.Raise) and exception_name(st, b) == "ValueError":
            sites["raise"].append(st)
    table = {}
    for m in ("mle", "lsq", "wlsq", "<other>"):
        row = []
        for k, sts in sites.items():
            for st in sts:
                vals = [_eval(l, m) for l in pcs.of(st)]
                if any(v is None for v in vals):
                    row.append(k + "?")
                elif all(vals):
                    row.append(k)
        table[m] = sorted(set(row))
    want = {"mle": ["mle"], "lsq": ["lsq"], "wlsq": ["lsq"], "<other>": ["raise"]}
    for m in want:
        rep.check(table[m] == want[m], "C12.dispatch", f"Distribution.fit:{m}", fn.where(),
                  f"method '{m}' -> {want[m][0]}", f"method '{m}' (compared case-insensitively) must reach exactly {want[m]}; reaches {table[m]}")
    rep.extra["C12.dispatch.table"] = table


def call_shape(prog, rep, fam, mi):
    fn = mi.fn
    if mi.fit_call is None:
        # closed form: estimates are the sample moments named in the docstring
        b = mi.b
        sample = P([p for p in fn.positional_params if p != "self"][0])
        stores = c11._attr_stores(fn, b, mi.pcs)
        want = {"mu_norm": ("call", G("numpy.mean"), (sample,), ()),
                "sigma_norm": ("call", G("numpy.std"), (sample,), (("ddof", ("const", 1)),))}
        for p in fam.param_names:
            free = [s for s in stores if s[0] == p and ("isnone", A(f"f_{p}")) in s[2]]
            ok = len(free) == 1 and p in want and free[0][1] == want[p]
            rep.check(ok, "C12.call", f"{fam.ci.qualname}._fit_mle:{p}", fn.where(free[0][3]) if free else fn.where(),
                      f"{p} = {show(want.get(p, ('const', '?')))}",
                      f"closed-form estimate of {p} must be {show(want.get(p, ('const', '?')))} of the unmodified sample; found {[show(s[1])[:60] for s in free]}")
        return
    dist, table = SLOT_TABLE[fam.name]
    sig = scipyinfo.positional_signature(dist)
    nshape = len(scipyinfo.shapes(dist))
    site = fn.where(mi.fit_stmt)
    t = mi.fit_call
    args = t[2]
    kw = dict(t[3])
    sample = P([p for p in fn.positional_params if p != "self"][0])
    inst = f"{fam.ci.qualname}._fit_mle"
    if mi.kw_name is not None and not mi.shared_keywords(rep, "C12.call"):
        return
    rep.check(mi.dist == dist, "C12.call", inst + ":dist", site, f"scipy.stats.{dist}.fit",
              f"fits scipy.stats.{mi.dist} but cdf/icdf/pdf use scipy.stats.{dist}")
    rep.check(bool(args) and args[0] == sample, "C12.call", inst + ":data", site, "fit(sample, ...) on the unmodified data",
              f"the first argument of scipy fit must be the unmodified data formal, found {show(args[0])[:80] if args else None}")
    starts = list(args[1:])
    if len(starts) not in (0, nshape):
        rep.fail("C12.call", inst + ":starts", site, f"{len(starts)} positional start values for {nshape} shape parameters {sig[:nshape]}")
    else:
        for i, s in enumerate(starts):
            sn = sig[i]
            kind, p = table[sn]
            want = expected_slot(kind, p, A)
            rep.check(algebra.same(s, want), "C12.call", inst + f":start{i}={sn}", site, f"start of {sn} is {kind}({p})",
                      f"start value {i} feeds scipy shape '{sn}' = {kind}({p}); expected {show(want)[:60]}, found {show(s)[:80]}")
    for sn in ("loc", "scale"):
        if sn in kw:
            if sn in table and table[sn][0] != "const":
                kind, p = table[sn]
                want = expected_slot(kind, p, A)
                rep.check(algebra.same(kw[sn], want), "C12.call", inst + f":start:{sn}", site, f"{sn} start is {kind}({p})",
                          f"{sn}= start must be {show(want)[:60]} ({kind} of the current {p}), found {show(kw[sn])[:80]}")
            else:
                default = table.get(sn, ("const", {"loc": 0, "scale": 1}[sn]))[1]
                rep.check(algebra.same(kw[sn], ("const", default)), "C12.call", inst + f":start:{sn}", site, f"{sn} start is the constant",
                          f"{sn}= start of a constant slot must be {default}, found {show(kw[sn])[:80]}")
    extra = [k for k in kw if k not in ("loc", "scale", "**")]
    rep.check(not extra, "C12.call", inst + ":kwargs", site, "no other keywords", f"unexpected keywords to scipy fit: {extra}")


def start_values(prog, rep):
    """The values an instance has before fitting are the optimiser's start: they must be admissible (shape and scale
    parameters positive, everything finite) - the likelihood at a start on the boundary is -inf and the fit goes astray."""
    from .distfam import SLOT_TABLE
    from .strtable import evaluate
    for fam in families(prog, include_generic=True):
        if fam.generic:
            fn = prog.lookup_method(fam.ci, "_set_default_parameter_values")
            if fn is None:
                raise AnalysisError(f"{fam.ci.qualname}._set_default_parameter_values not found")
            rep.analysed(fn)
            b = fam.b(fn, inline=False)
            pcs = path_conditions(prog, fn, b)
            sets = []  # (stmt, name term, value term, literals)
            for st in cfg_of(fn).all_stmts():
                if isinstance(st, ast.Expr) and isinstance(st.value, ast.Call):
                    t = b.term(st.value, st)
                    if t[0] == "call" and t[1] == G("setattr") and len(t[2]) == 3 and t[2][0] == SELF:
                        sets.append((st, t[2][1], t[2][2], pcs.of(st)))
            syms = {nm for _s, nm, _v, _l in sets if nm[0] in ("sub", "idx") or (nm[0] == "sub" and nm[2][0] == "idx")}
            plain = [x for x in sets if x[1][0] != "fstr" and not (x[1][0] == "bin")]
            sym = plain[0][1] if plain else None
            rows = {}
            for cand in ("loc", "scale", "c", "a", "s", "o", "l", "lo", "df", "kappa", "b"):
                got = []
                for st, nm, v, lits in plain:
                    if nm != sym:
                        continue
                    ev = [evaluate(l, sym, cand) for l in lits]
                    if None in ev:
                        got.append(("?", st))
                    elif all(ev):
                        while v[0] == "ifexp":
                            tv = evaluate(v[1], sym, cand)
                            if tv is None:
                                v = "?"
                                break
                            v = v[2] if tv else v[3]
                        got.append((v, st))
                rows[cand] = got
            for cand, got in rows.items():
                want = ("const", 0) if cand == "loc" else ("const", 1)
                ok = len(got) == 1 and got[0][0] == want
                rep.check(ok, "C12.start", f"{fn.qualname}:{cand}", fn.where(got[0][1]) if got else fn.where(),
                          f"a parameter named '{cand}' starts at {want[1]}",
                          f"a scipy parameter named '{cand}' must start at {want[1]} (shapes and scale at 1, only loc at 0: a shape or scale of 0 is not admissible); "
                          f"found {[show(g[0])[:30] if g[0] != '?' else 'undecided condition' for g in got]}")
            continue
        init = fam.m["__init__"]
        mf = fam.m["_fit_mle"]
        if not any(isinstance(n_, ast.Call) and isinstance(n_.func, ast.Attribute) and n_.func.attr == "fit" for n_ in ast.walk(mf.node)):
            continue  # closed-form estimate: nothing is started from the current values
        rep.analysed(init)
        dflt = init.defaults()
        table = SLOT_TABLE.get(fam.name, (None, {}))[1]
        positive = {par for _slot, (kind, par) in table.items() if kind in ("id", "recip") and _slot != "loc" and isinstance(par, str)}
        for p_ in fam.param_names:
            d = dflt.get(p_)
            val = d.value if isinstance(d, ast.Constant) else None
            if isinstance(d, ast.UnaryOp) and isinstance(d.op, ast.USub) and isinstance(d.operand, ast.Constant):
                val = -d.operand.value
            ok = isinstance(val, (int, float)) and not isinstance(val, bool) and val == val and abs(val) != float("inf") and (p_ not in positive or val > 0)
            rep.check(ok, "C12.start", f"{fam.ci.qualname}.__init__:{p_}", init.where(), f"default {p_}={val} is an admissible start",
                      f"the default of {p_} (the start value of a fit) must be a finite constant{' > 0' if p_ in positive else ''}, found {ast.unparse(d) if d is not None else None}")


def run(prog, rep):
    rep.part(start_values, prog, rep)
    rep.expect_min("C12.start", 24)
    rep.explanation = EXPL + ' C12.fixed: the keyword/slot obligations of C11.mle filed under this property (a fixed value enters the likelihood through its own slot and mapping).'
    rep.assumptions = ASSUME
    rep.part(dispatch, prog, rep)
    for fam in families(prog, include_generic=True):
        if fam.generic:
            mf = fam.m["_fit_mle"]
            rep.analysed(mf)
            bm = fam.b(mf, inline=False)
            ok = False
            for st in cfg_of(mf).all_stmts():
                if isinstance(st, ast.Assign) and isinstance(st.value, ast.Call):
                    t = bm.term(st.value, st)
                    if t[0] == "call" and t[1] == ("attr", ("attr", SELF, "scipy_dist"), "fit"):
                        kw = dict(t[3])
                        sample = P([p for p in mf.positional_params if p != "self"][0])
                        keys = set(kw)
                        d_ = kw.get("**")
                        if d_ is not None and d_[0] == "mutated":
                            d_ = d_[1]
                        if d_ is not None and d_[0] == "dict":
                            # loc= / scale= given through the forwarded dictionary (start values first, fixed keywords added to it)
                            keys |= {k_[1] for k_, _v in d_[1] if k_[0] == "const"}
                        ok = (t[2][:1] == (sample,) and len(t[2]) == 2 and t[2][1][0] == "star"
                              and "loc" in keys and "scale" in keys)
            rep.check(ok, "C12.call", f"{fam.ci.qualname}._fit_mle", mf.where(), "self.scipy_dist.fit(sample, *shape starts, loc=, scale=, **fixed)",
                      "generic fit must pass the unmodified sample, the shape start values positionally and loc=/scale= starts")
            continue
        mi = rep.part(MleInfo, prog, fam)
        if mi is None:
            continue
        rep.analysed(mi.fn)
        rep.part(call_shape, prog, rep, fam, mi)
        # C12.assign: same obligations as C11.unmap, reported under this property's rule id
        sub = _Relabel(rep, "C11.unmap", "C12.assign")
        rep.part(c11.unmap, prog, sub, fam, mi)
        # a value fixed by the user enters the likelihood through its scipy slot: a keyword in the wrong slot or with the
        # wrong mapping (scale vs reciprocal, exp) optimises the remaining parameters for another model (same rows as C11.mle)
        rep.part(c11.mle, prog, _Relabel(rep, "C11.mle", "C12.fixed"), fam, mi)
    rep.expect_min("C12.dispatch", 4)
    rep.expect_min("C12.call", 22)
    rep.expect_min("C12.assign", 15)
    rep.expect_min("C12.fixed", 17)


class _Relabel:
    def __init__(self, rep, old, new):
        self.rep, self.old, self.new = rep, old, new

    def _r(self, rule):
        return self.new if rule == self.old else rule

    def ok(self, rule, *a, **k):
        if a and isinstance(a[0], str) and a[0].endswith(":fixed-kept"):
            return
        self.rep.ok(self._r(rule), *a, **k)

    def fail(self, rule, *a, **k):
        self.rep.fail(self._r(rule), *a, **k)

    def check(self, cond, rule, *a, **k):
        if a and isinstance(a[0], str) and a[0].endswith(":fixed-kept"):
            return cond  # whether a FIXED value survives the fit is C11's statement, not C12's
        return self.rep.check(cond, self._r(rule), *a, **k)

    def __getattr__(self, n):
        return getattr(self.rep, n)
