"""C10 - interval slicing partitions the data (wiring clauses)."""
import ast
import itertools

from vstat.loader import AnalysisError
from vstat.terms import top_alts, subst, IT, CMP, ordered, builder, show, SELF, NONE, G, alts, walk, mentions, phi, strip_none, neg_test
from vstat.guards import path_conditions, exception_name
from vstat.cfg import cfg_of, EXIT
from vstat.dataflow import rd_of
from vstat.sigs import bind
from vstat.align import Aligner, Tag, NEUTRAL, TOP
from vstat import algebra

IV = "virocon.intervals"
DATA = ("param", "data")
EXPL = ("C10.align: every mask returned by every _slice is aligned with the input positions (alignment typing pos/rank/chunk); "
        "C10.ops: each value-interval mask is lower<>data & data<>upper with exactly one strict and one non-strict comparison, orientation "
        "selected by right_open, include_max closes only the last upper bound; C10.edge: the upper bound of interval k and the lower bound of "
        "interval k+1 are the same value, read from one edge sequence (E[a:b][k], E[a+1:b+1][k]); C10.bounds: reported boundaries are the pairs "
        "of that edge sequence; C10.refs: centre/left/right references as normal forms of the edges, unknown string -> ValueError, other type -> "
        "TypeError (truth table over the kind of reference), callable applied to data[mask] of the surviving intervals; C10.drop: an interval is "
        "kept iff np.sum(mask) >= min_n_points with mask/reference/boundary of one index kept together; C10.min: RuntimeError iff fewer than "
        "min_n_intervals remain, before returning; C10.ppi: chunks are consecutive pieces of the argsort, remainder first iff last_full, "
        "boundaries are midpoints of neighbouring extremes.")
ASSUME = ["IEEE arithmetic: two different expressions of one real edge are not assumed bit-equal",
          "that arange/linspace produce the intended number of intervals is a runtime fact"]


def run(prog, rep):
    rep.explanation = EXPL + ' C10.ppi:masks-by-position: a chunk mask marks positions, it does not see the chunk only through data[chunk].'
    rep.assumptions = ASSUME
    rep.part(align, prog, rep, "C10.align")
    rep.part(width_slicer, prog, rep)
    rep.part(number_slicer, prog, rep)
    rep.part(refs_guard, prog, rep)
    rep.part(drop, prog, rep)
    rep.part(minimum, prog, rep)
    rep.part(ppi, prog, rep)
    rep.part(empty_exits, prog, rep)
    rep.part(empty_data, prog, rep)
    from .purity import stateless, methods
    stateless(prog, rep, "C10.stateless", methods(prog, {f"{IV}.IntervalSlicer": ["slice_", "_drop_too_small_intervals"], f"{IV}.WidthOfIntervalSlicer": ["_slice"],
                                                          f"{IV}.NumberOfIntervalsSlicer": ["_slice"], f"{IV}.PointsPerIntervalSlicer": ["_slice"]}), what="slicing")
    rep.expect_min("C10.stateless", 5)
    rep.explanation += " C10.stateless: slice_ / _slice / _drop_too_small_intervals write no attribute of the slicer and mutate neither it nor the data (effect summaries)."
    rep.expect_min("C10.align", 4)
    rep.expect_min("C10.ops", 5)
    rep.expect_min("C10.edge", 4)
    rep.expect_min("C10.bounds", 2)
    rep.expect_min("C10.refs", 12)
    rep.expect_min("C10.drop", 4)
    rep.expect_min("C10.min", 3)
    rep.expect_min("C10.ppi", 10)


# ------------------------------------------------------------------ helpers
def slicers(prog):
    base = prog.cls(f"{IV}.IntervalSlicer")
    subs = [c for c in prog.subclasses(base, strict=True)]
    if len(subs) < 3:
        raise AnalysisError(f"expected 3 slicers, found {[c.name for c in subs]}")
    return subs


def local(b, fn, name, at):
    return b.name(name, at, {})


def appended(fn, b, listname):
    """[(stmt, arg term)] of ``listname.append(x)`` calls."""
    out = []
    for st in cfg_of(fn).all_stmts():
        if isinstance(st, ast.Expr) and isinstance(st.value, ast.Call):
            f = st.value.func
            if isinstance(f, ast.Attribute) and f.attr == "append" and isinstance(f.value, ast.Name) and f.value.id == listname and st.value.args:
                out.append((st, b.term(st.value.args[0], st)))
    return out


def _triple_of(fn, b, ret):
    if isinstance(ret.value, ast.Tuple):
        if len(ret.value.elts) != 3:
            raise AnalysisError(f"{fn.qualname}: expected 'return slices, references, boundaries'")
        return [b.term(e, ret) for e in ret.value.elts]
    t = b.term(ret.value, ret)
    if t[0] == "tuple" and len(t[1]) == 3:
        return list(t[1])
    return [IT(t, k) for k in range(3)]


def _emptied(l):
    """the term X a literal says is empty (len(X) == 0, not X, not len(X), len(X) < 1), else None"""
    def of_len(t):
        return t[2][0] if t[0] == "call" and t[1] == G("len") and len(t[2]) == 1 else None
    if l[0] == "not":
        o = ordered(l[1]) if l[1][0] == "cmp" else None
        if o is not None:
            # not (len(X) > 0), not (len(X) >= 1)
            if (o[0] == ("const", 0) and o[2]) or (o[0] == ("const", 1) and not o[2]):
                return of_len(o[1])
            return None
        return of_len(l[1]) or l[1]
    if l[0] == "cmp" and l[1] == "==" and l[3] == ("const", 0):
        return of_len(l[2])
    o = ordered(l)
    if o is not None and ((o[1] == ("const", 1) and o[2]) or (o[1] == ("const", 0) and not o[2])):
        return of_len(o[0])
    return None


def all_returns(fn, b):
    """[(return statement, [masks, references, boundaries], is_empty_exit)]: an empty exit is a return reached only where
    the list of masks (its own or that of another return) is empty: nothing survived, slice_ raises or returns nothing."""
    rets = [s for s in cfg_of(fn).all_stmts() if isinstance(s, ast.Return) and s.value is not None]
    pcs = path_conditions(b.prog, fn, b) if len(rets) > 1 else None
    trs = [_triple_of(fn, b, r) for r in rets]
    lists = {tr[0] for tr in trs}
    out = []
    for r, tr in zip(rets, trs):
        empt = [_emptied(l) for l in (pcs.of(r) if pcs is not None else ())]
        empt = [x for x in empt if x is not None]
        # ... or where something the masks of another return are built from is empty and this one returns no interval at all
        derived = tr[0] == ("list", ()) and any(x not in lists and any(mentions(m, x) for m in lists if m != tr[0]) for x in empt)
        out.append((r, tr, pcs is not None and (any(x in lists for x in empt) or derived)))
    return out


def ret_names(fn, b=None):
    rets = [s for s in cfg_of(fn).all_stmts() if isinstance(s, ast.Return) and s.value is not None]
    if len(rets) != 1 and b is not None:
        rets = [r for r, _t, empty in all_returns(fn, b) if not empty]
    if len(rets) != 1:
        raise AnalysisError(f"{fn.qualname}: expected one 'return slices, references, boundaries' (besides exits with no interval left)")
    return rets[0]


def ret_triple(fn, b):
    """(return statement, [masks, references, boundaries] terms): a tuple display, or the three elements of a returned call result."""
    ret = ret_names(fn, b)
    return ret, _triple_of(fn, b, ret)


def mask_sources(prog, fn, b):
    """Terms of all masks that can end up in the returned list of _slice: comprehension elements and appended masks,
    traced through self._drop_too_small_intervals (which keeps elements, C10.drop)."""
    ret, (t, _r, _b) = ret_triple(fn, b)
    first = ret.value.elts[0] if isinstance(ret.value, ast.Tuple) else None
    out = []
    if t[0] == "sub" and t[2][0] == "const" and t[1][0] == "call" and t[1][1] == ("attr", SELF, "_drop_too_small_intervals"):
        src = t[1][2][t[2][1]] if isinstance(t[2][1], int) and t[2][1] < len(t[1][2]) else None
        call_stmt = None
    else:
        src = t
    if src is None:
        raise AnalysisError(f"{fn.qualname}: cannot trace the returned masks")
    for _lits_, a in top_alts(src):
        if a[0] == "comp":
            out.append(("comp", a, a[2]))
        elif a[0] == "list":
            for x in a[1]:
                out.append(("elem", a, x))
        else:
            out.append(("other", a, a))
    # appended masks: find the local list name(s) passed into the drop call
    names = set()
    for st in cfg_of(fn).all_stmts():
        dc = st.value if isinstance(st, (ast.Assign, ast.Return, ast.Expr)) else None
        if isinstance(dc, ast.Call) and isinstance(dc.func, ast.Attribute) and dc.func.attr == "_drop_too_small_intervals":
            if dc.args and isinstance(dc.args[0], ast.Name):
                names.add(dc.args[0].id)
    if isinstance(first, ast.Name):
        names.add(first.id)
    for nm in names:
        for st, x in appended(fn, b, nm):
            if b.is_builder_append(st):
                continue  # the loop that builds the list: already present as a comprehension
            out.append(("append", st, x))
    return out


# -------------------------------------------------------------------- align
def align(prog, rep, rule):
    for ci in slicers(prog):
        fn = prog.lookup_method(ci, "_slice")
        rep.analysed(fn)
        b = builder(prog, fn, ci, inline=False)
        al = Aligner({DATA: Tag("pos")})
        masks = mask_sources(prog, fn, b)
        bad = []
        from vstat.terms import guarded_alts
        for kind, _, m in masks:
            for _, mm in guarded_alts(m):
                for a in alts(mm):
                    tg = al.tag(a)
                    if tg.space != "pos":
                        bad.append(f"mask {show(a)[:100]} is in {tg!r} space")
        bad += [msg for _, msg in al.violations]
        inst = f"{fn.qualname}:masks"
        rep.check(not bad and bool(masks), rule, inst, fn.where(), f"{len(masks)} mask expression(s), all aligned with input positions",
                  "returned masks must be aligned with the positions of the input data: " + "; ".join(dict.fromkeys(bad)) if masks else "no mask expression found")
    # the callable reference and the boundaries of PointsPerIntervalSlicer index data with those masks
    fn = prog.func(f"{IV}.IntervalSlicer.slice_")
    rep.analysed(fn)
    b = builder(prog, fn, inline=False)
    ok = False
    for st, _nm, t in b.list_values():
        if True:
            sl = IT(("call", ("attr", SELF, "_slice"), (DATA,), ()), 0)
            if t[0] == "comp" and t[4] == sl and t[2] == ("call", ("attr", SELF, "reference"), (("sub", DATA, ("sub", sl, ("idx", t[3], "iter"))),), ()):
                ok = ("call", G("callable"), (("attr", SELF, "reference"),), ()) in path_conditions(prog, fn, b).of(st)
    rep.check(ok, rule, f"{fn.qualname}:callable-reference", fn.where(), "reference(data[mask]) for each surviving mask, same data",
              "a callable reference must be applied to data[mask] for every mask returned by _slice(data), with the same data")


# ---------------------------------------------------------------- ops / edge
def parse_mask(m, data=DATA):
    """mask term -> (lower term, lower_inclusive, upper term, upper_inclusive) or None."""
    if m[0] == "bin" and m[1] == "&":
        parts = [m[2], m[3]]
    elif m[0] == "call" and m[1] == G("numpy.logical_and") and len(m[2]) == 2:
        parts = list(m[2])
    else:
        return None
    lo = up = None
    for c in parts:
        if c[0] != "cmp" or c[1] not in ("<", "<=", ">", ">="):
            return None
        op, l, r = c[1], c[2], c[3]
        if r == data and l != data:
            # bound op data
            if op in ("<", "<="):
                lo = (l, op == "<=")
            else:
                up = (l, op == ">=")
        elif l == data and r != data:
            if op in (">", ">="):
                lo = (r, op == ">=")
            else:
                up = (r, op == "<=")
        else:
            return None
    if lo is None or up is None:
        return None
    return lo[0], lo[1], up[0], up[1]


def mask_alts(m):
    """[(literals, mask)]: the mask itself, or - when the operators are chosen by flags inside the expression
    ((data >= lo) if incl else (data > lo)) - one alternative per consistent choice."""
    if parse_mask(m) is not None:
        return [((), m)]
    # only the choice of the comparison operators is split (the two operands of the conjunction); choices nested deeper
    # (a value range chosen by a conditional expression ...) stay inside the bounds, so that they still compare equal
    # to the same bounds read elsewhere
    if m[0] == "bin" and m[1] == "&":
        ops = [m[2], m[3]]
    elif m[0] == "call" and m[1] == G("numpy.logical_and") and len(m[2]) == 2:
        ops = list(m[2])
    else:
        ops = None
    from vstat.terms import guarded_alts
    if ops is None:
        return [(tuple(l), mm) for l, mm in guarded_alts(m) if parse_mask(mm) is not None] or [((), m)]
    combos = [((), [])]
    for op in ops:
        alts_ = top_alts(op)
        combos = [(l0 + tuple(l1), xs + [x]) for l0, xs in combos for l1, x in alts_]
    out = []
    for lits, xs in combos:
        ks = set(lits)
        if any(("not", l) in ks for l in ks):
            continue
        mm = ("bin", "&", xs[0], xs[1])
        if parse_mask(mm) is not None:
            out.append((tuple(dict.fromkeys(lits)), mm))
    # a choice hidden deeper (the comparison function itself chosen by a flag): split everything
    return out or [(tuple(l), mm) for l, mm in guarded_alts(m) if parse_mask(mm) is not None] or [((), m)]


def edge_pair(lower, upper):
    """lower = E[a:b][k], upper = E[a+1:b+1][k]  ->  (E, a, b) else None."""
    if lower[0] == "sub" and upper[0] == "sub" and lower[2] == upper[2] and lower[2][0] == "idx":
        l, u = lower[1], upper[1]
        if l[0] == "sub" and u[0] == "sub" and l[1] == u[1] and l[2][0] == "slice" and u[2][0] == "slice":
            def iv(x, default):
                if x == NONE:
                    return default
                if x[0] == "const" and isinstance(x[1], int):
                    return x[1]
                return "?"
            la, lb = iv(l[2][1], 0), iv(l[2][2], 0)  # stop None == 0 meaning 'end'
            ua, ub = iv(u[2][1], 0), iv(u[2][2], 0)
            if "?" in (la, lb, ua, ub) or l[2][3] != NONE or u[2][3] != NONE:
                return None
            # b is expressed as a non-positive offset from the end (None -> 0)
            if lb > 0 or ub > 0 or la < 0 or ua < 0:
                return None
            if ua == la + 1 and ub == lb + 1:
                return l[1], la, lb
    return None


def const_edge(t):
    """E[-2] -> (E, -2)"""
    if t[0] == "sub" and t[2][0] == "const" and isinstance(t[2][1], int):
        return t[1], t[2][1]
    return None


def width_slicer(prog, rep):
    q = f"{IV}.WidthOfIntervalSlicer._slice"
    fn = prog.func(q)
    rep.analysed(fn)
    b = builder(prog, fn, inline=False)
    pcs = path_conditions(prog, fn, b)
    ro = ("attr", SELF, "right_open")
    w = ("attr", SELF, "width")
    E = None
    seen = {True: False, False: False}
    for st, _nm, tv in b.list_values():
        # one comprehension per orientation (or the loop that appends one mask per interval), chosen by if/else statements or by one conditional expression
        for lits0_, t, elt in [(l0 + l1, t_, e_) for l0, t_ in top_alts(tv) if t_[0] == "comp" for l1, e_ in mask_alts(t_[2])]:
            lits_ = lits0_
            pm = parse_mask(elt)
            if pm is None:
                continue
            lo, loi, up, upi = pm
            pc = tuple(pcs.of(st)) + tuple(lits_)
            branch = True if ro in pc else False if ("not", ro) in pc else None
            inst = f"{q}:{'right_open' if branch else 'left_open' if branch is False else 'unconditional'}"
            site = fn.where(st)
            if branch is None:
                rep.fail("C10.ops", inst, site, "interval masks are not selected by self.right_open")
                continue
            seen[branch] = True
            want = (True, False) if branch else (False, True)
            rep.check((loi, upi) == want, "C10.ops", inst, site,
                      f"lower {'<=' if want[0] else '<'} data {'<=' if want[1] else '<'} upper",
                      f"{'right' if branch else 'left'}-open intervals need lower {'<=' if want[0] else '<'} data and data {'<=' if want[1] else '<'} upper "
                      f"(one strict, one non-strict); found lower {'<=' if loi else '<'} data, data {'<=' if upi else '<'} upper: "
                      "edge values fall in two intervals or in none")
            ep = edge_pair(lo, up)
            okE = ep is not None and ep[1] == 0 and ep[2] == -1
            rep.check(okE, "C10.edge", inst, site, "bounds are E[:-1][k], E[1:][k] of one edge array",
                      f"the upper bound of interval k and the lower bound of interval k+1 must be the SAME value read from one edge sequence "
                      f"(zip(E[:-1], E[1:])); found lower={show(lo)[:90]} upper={show(up)[:90]} - two float expressions for one edge are not bit-equal, "
                      "so a value on an edge lands in two intervals or in none")
            if okE:
                E = ep[0] if E in (None, ep[0]) else "mismatch"
            # comprehension iterates the zipped edge slices
    for br, s in seen.items():
        if not s:
            rep.fail("C10.ops", f"{q}:{'right_open' if br else 'left_open'}", fn.where(), "no interval masks found for this orientation")
    ret, (_mt, ref_t, bt) = ret_triple(fn, b)
    if E not in (None, "mismatch"):
        # boundaries
        bsrc = bt[1][2][2] if bt[0] == "sub" and bt[2][0] == "const" and bt[1][0] == "call" and len(bt[1][2]) == 3 else bt
        rep.check(is_edge_pairs(bsrc, E), "C10.bounds", f"{q}:boundaries", fn.where(ret), "boundaries = zip(E[:-1], E[1:]) of the masks' edge array",
                  f"reported boundaries must be the (lower, upper) pairs of the same edge sequence the masks use; found {show(bsrc)[:160]}")
        # references: E = append(C - w/2, C[-1] + w/2), C = arange(min, max + w, w) + w/2
        half = ("bin", "*", ("const", 0.5), w)
        okc = False
        C = None
        S = None
        why_e = f"found {show(E)[:200]}"
        if E[0] == "call" and E[1] == G("numpy.append") and len(E[2]) == 2:
            lows, last = E[2]
            # the lower edges are the interval starts S = arange(min, max + w, w) THEMSELVES: the first edge is then exactly the
            # lower limit (an edge rebuilt as (S + w/2) - w/2 is not, and the observation on a non-zero lower limit is in no interval)
            st_form = _starts_form(lows, w)
            if st_form is not None:
                S = lows
                (a0, a1, a2), exact = st_form
                okc = a2 == w and a1[0] == "bin" and a1[1] == "+" and algebra.same(a1[3], w) and algebra.same(last, ("bin", "+", ("sub", S, ("const", -1)), w))
                if okc and not exact:
                    okc = False
                    why_e = ("the starts are the VALUES of np.arange(min, max + width, width): arange fills them as min + i * ((min + width) - min), and for a lower limit "
                             "that is large against the width (min + width) - min is not the width (1e12 and 0.001: 0.0009765625), the error grows with i, the last edge "
                             "falls short of max(data) and the largest observations are in no interval; take only the NUMBER of intervals from arange and compute "
                             "the starts as min + width * np.arange(n)")
            elif lows[0] == "bin" and lows[1] == "-":
                why_e = (f"the lower edges are recomputed as {show(lows)[:80]}: in floating point (s + w/2) - w/2 is not s, so the lowest edge is not the lower "
                         "limit and an observation exactly on a non-zero lower limit belongs to no interval; use the starts arange(min, max + w, w) themselves")
        rep.check(okc, "C10.refs", f"{q}:edges", fn.where(), "E = append(S, S[-1] + w) with S = arange(min, max + w, w)",
                  "the edge array must be the interval starts arange(min, max + width, width) and one more edge a width above the last; " + why_e)
        if S is not None:
            # np.arange(min, max + w, w) is EMPTY when the data lie below the lower limit: S[-1] then raises IndexError where
            # slice_ should report too few intervals
            for st in cfg_of(fn).all_stmts():
                for node in _own_nodes(st):
                    if isinstance(node, ast.Subscript) and isinstance(node.ctx, ast.Load) and _const_int(node.slice) is not None and b.term(node.value, st) == S:
                        lits = pcs.of(st)
                        okn = _nonzero(lits, ("call", G("len"), (S,), ())) or _nonzero(lits, ("attr", S, "size")) or _nonzero(lits, S)
                        rep.check(okn, "C10.min", f"{q}:nonempty:{ast.unparse(node)[:30]}", fn.where(st), "an element of the interval starts is read only where there is one",
                                  f"{ast.unparse(node)[:40]} is read although np.arange(min, max + width, width) is empty when nothing lies between the limits "
                                  "(IndexError instead of the RuntimeError of slice_)")
            # the centres the references start from: S + w/2
            C = ("bin", "+", S, half)
            cdefs = [st for st in cfg_of(fn).all_stmts() if isinstance(st, ast.Assign) and algebra.same(b.term(st.value, st), C)]
            if cdefs:
                C = b.term(cdefs[0].value, cdefs[0])
            rep.check(bool(cdefs), "C10.refs", f"{q}:centres", fn.where(cdefs[0]) if cdefs else fn.where(), "C = S + w/2",
                      "the interval centres (the default reference) must be the starts plus half the width")
        if S is not None and C is not None:
            # reference shifts
            shifts = {}
            cfg = cfg_of(fn)
            for st in cfg.all_stmts():
                if isinstance(st, ast.AugAssign) and isinstance(st.target, ast.Name):
                    cur = b.name(st.target.id, st, {})
                    if C in alts(cur) or cur == C:
                        kind = None
                        for l in pcs.of(st):
                            if l[0] == "cmp" and l[1] == "==" and l[3][0] == "const":
                                kind = l[3][1]
                        sign = 1 if isinstance(st.op, ast.Add) else -1 if isinstance(st.op, ast.Sub) else 0
                        shifts[kind] = (sign, b.term(st.value, st), st)
            for kind, sign in (("right", 1), ("left", -1)):
                s = shifts.get(kind)
                ok = s is not None and s[0] == sign and algebra.same(s[1], half)
                rep.check(ok, "C10.refs", f"{q}:reference:{kind}", fn.where(s[2]) if s else fn.where(),
                          f"'{kind}' reference = centre {'+' if sign > 0 else '-'} w/2",
                          f"reference '{kind}' must shift the centres by {'+' if sign > 0 else '-'}width/2; found {(s[0], show(s[1])) if s else None}")
                if s:
                    # the in-place shift must come after edges / masks were computed from the centres
                    users = [n for n, st2 in cfg.stmt.items() if isinstance(st2, ast.Assign) and isinstance(st2.value, (ast.ListComp, ast.Call))
                             and mentions(b.term(st2.value, st2), C) and st2 is not s[2] and not (isinstance(st2.value, ast.Call) and isinstance(st2.value.func, ast.Attribute) and st2.value.func.attr == "_drop_too_small_intervals")]
                    late = [n for n in users if cfg.reachable(cfg.node(s[2]), n)]
                    rep.check(not late, "C10.refs", f"{q}:reference:{kind}:order", fn.where(s[2]), "shift happens after edges and masks are computed",
                              "the in-place reference shift is followed by a computation of edges/masks from the shifted array: intervals move with the reference")


def _starts_form(lows, w):
    """((start, stop, step), exact) when lows are the interval starts of arange(start, stop, step): its values themselves (exact False:
    they accumulate the rounding of (start + step) - start) or start + step * arange(n) with n the LENGTH of that arange (exact True)."""
    if lows[0] == "call" and lows[1] == G("numpy.arange") and len(lows[2]) == 3 and not lows[3]:
        return lows[2], False
    for x in walk(lows):
        if x[0] == "call" and x[1] == G("numpy.arange") and len(x[2]) == 1 and not x[3]:
            n = x[2][0]
            src = None
            if n[0] == "call" and n[1] == G("len") and len(n[2]) == 1:
                src = n[2][0]
            elif n[0] == "attr" and n[2] == "size":
                src = n[1]
            elif n[0] == "sub" and n[1][0] == "attr" and n[1][2] == "shape" and n[2] == ("const", 0):
                src = n[1][1]
            if src is not None and src[0] == "call" and src[1] == G("numpy.arange") and len(src[2]) == 3 and not src[3]:
                a0, a1, a2 = src[2]
                if algebra.same(lows, ("bin", "+", a0, ("bin", "*", a2, x))):
                    return src[2], True
    return None


def is_edge_pairs(t, E):
    lo = ("sub", E, ("slice", NONE, ("const", -1), NONE))
    hi = ("sub", E, ("slice", ("const", 1), NONE, NONE))
    z = ("call", G("zip"), (lo, hi), ())
    if t == ("call", G("list"), (z,), ()):
        return True
    if t[0] == "comp" and t[4] == z and t[2][0] == "tuple" and len(t[2][1]) == 2:
        i = ("idx", t[3], "zip")
        return t[2][1] == (("sub", lo, i), ("sub", hi, i))
    return False


def number_slicer(prog, rep):
    q = f"{IV}.NumberOfIntervalsSlicer._slice"
    fn = prog.func(q)
    rep.analysed(fn)
    b = builder(prog, fn, inline=False)
    pcs = path_conditions(prog, fn, b)
    im = ("attr", SELF, "include_max")
    E = None
    comp_seen = False
    from vstat.terms import guarded_alts
    sources = []
    for kind, holder, m in mask_sources(prog, fn, b):
        if kind == "append" and parse_mask(m) is None:
            # one append of a mask chosen by a condition: split by the defining statements / conditional expressions
            st = holder
            arg = st.value.args[0]
            if isinstance(arg, ast.Name) and len(b.rd.reaching(arg.id, st)) > 1:
                for d in b.rd.reaching(arg.id, st):
                    for lits, mm in mask_alts(b.def_term(d)):
                        sources.append((kind, holder, mm, tuple(pcs.of(d.stmt)) + tuple(lits)))
            else:
                for lits, mm in mask_alts(m):
                    sources.append((kind, holder, mm, tuple(lits)))
        else:
            for lits, mm in mask_alts(m):
                sources.append((kind, holder, mm, tuple(lits)))
    for kind, holder, m, lits in sources:
        pm = parse_mask(m)
        if pm is None:
            rep.fail("C10.ops", f"{q}:mask", fn.where(), f"unrecognised mask {show(m)[:120]}")
            continue
        lo, loi, up, upi = pm
        if kind == "comp":
            comp_seen = True
            rep.check((loi, upi) == (True, False), "C10.ops", f"{q}:inner", fn.where(), "lower <= data < upper",
                      f"inner intervals must be lower <= data < upper; found lower {'<=' if loi else '<'} data, data {'<=' if upi else '<'} upper")
            ep = edge_pair(lo, up)
            ok = ep is not None and ep[1] == 0 and ep[2] == -2
            rep.check(ok, "C10.edge", f"{q}:inner", fn.where(), "bounds are E[:-2][k], E[1:-1][k] of one edge array",
                      f"the upper bound of interval k and the lower bound of interval k+1 must be the SAME value read from one edge sequence; "
                      f"found lower={show(lo)[:90]} upper={show(up)[:90]} (start_k + width vs start_k+1 differ in the last bit for decimal widths)")
            if ok:
                E = ep[0]
        elif kind == "append":
            st = holder
            pc = tuple(pcs.of(st)) + tuple(lits)
            branch = True if im in pc else False if ("not", im) in pc else None
            inst = f"{q}:last:{'include_max' if branch else 'exclude_max' if branch is False else 'unconditional'}"
            if branch is None:
                rep.fail("C10.ops", inst, fn.where(st), "last interval is not selected by self.include_max")
                continue
            rep.check((loi, upi) == (True, branch), "C10.ops", inst, fn.where(st),
                      f"lower <= data {'<=' if branch else '<'} upper",
                      f"the last interval must be lower <= data {'<=' if branch else '<'} upper; found lower {'<=' if loi else '<'} data, data {'<=' if upi else '<'} upper")
            cl, cu = const_edge(lo), const_edge(up)
            ok = cl is not None and cu is not None and cl[0] == cu[0] and (cl[1], cu[1]) == (-2, -1) and (E is None or cl[0] == E)
            rep.check(ok, "C10.edge", inst, fn.where(st), "last interval is (E[-2], E[-1]) of the same edge array",
                      f"the last interval must continue the edge sequence: (E[-2], E[-1]); found lower={show(lo)[:80]} upper={show(up)[:80]}")
    if not comp_seen:
        rep.fail("C10.ops", f"{q}:inner", fn.where(), "no comprehension of inner interval masks found")
    ret, (_mt, rt_ret, bt) = ret_triple(fn, b)
    if E is not None:
        bsrc = bt[1][2][2] if bt[0] == "sub" and bt[2][0] == "const" and bt[1][0] == "call" and len(bt[1][2]) == 3 else bt
        rep.check(is_edge_pairs(bsrc, E), "C10.bounds", f"{q}:boundaries", fn.where(ret), "boundaries = zip(E[:-1], E[1:]) of the masks' edge array",
                  f"reported boundaries must be the pairs of the same edge sequence the masks use; found {show(bsrc)[:160]}")
        # E = append(starts, v1); starts, width = linspace(v0, v1, num=n_intervals, endpoint=False, retstep=True)
        ok = False
        starts = width = None
        if E[0] == "call" and E[1] == G("numpy.append") and len(E[2]) == 2:
            starts, v1 = E[2]
            if starts[0] == "sub" and starts[2] == ("const", 0) and starts[1][0] == "call" and starts[1][1] == G("numpy.linspace"):
                bd = bind(starts[1])
                ok = (bd is not None and bd.get("stop") == v1 and bd.get("num") == ("attr", SELF, "n_intervals")
                      and bd.get("endpoint") == ("const", False) and bd.get("retstep") == ("const", True)
                      and v1[0] == "sub" and v1[2] == ("const", 1) and bd.get("start") == ("sub", v1[1], ("const", 0)))
                width = IT(starts[1], 1)
        rep.check(ok, "C10.refs", f"{q}:edges", fn.where(), "E = append(linspace(v0, v1, n_intervals, endpoint=False), v1)",
                  f"the edge array must be the n_intervals equally spaced starts of (v0, v1) followed by v1 itself; found {show(E)[:220]}")
        if ok:
            rt = rt_ret
            rsrc = rt[1][2][1] if rt[0] == "sub" and rt[2][0] == "const" and rt[1][0] == "call" and len(rt[1][2]) == 3 else rt
            rd = rd_of(fn)
            refname = None
            for st in cfg_of(fn).all_stmts():
                dc = st.value if isinstance(st, (ast.Assign, ast.Return)) else None
                if isinstance(dc, ast.Call) and isinstance(dc.func, ast.Attribute) and dc.func.attr == "_drop_too_small_intervals":
                    if len(dc.args) > 1 and isinstance(dc.args[1], ast.Name):
                        refname = dc.args[1].id
                        at = st
            want = {"center": ("bin", "+", starts, ("bin", "*", ("const", 0.5), width)), "right": ("bin", "+", starts, width), "left": starts}
            got = {}
            if refname:
                for d in rd.reaching(refname, at):
                    kind = "center"
                    for l in pcs.of(d.stmt):
                        if l[0] == "cmp" and l[1] == "==" and l[3][0] == "const":
                            kind = l[3][1]
                    got[kind] = (b.def_term(d), d.stmt)
            for kind, wt in want.items():
                g = got.get(kind)
                rep.check(g is not None and algebra.same(g[0], wt), "C10.refs", f"{q}:reference:{kind}", fn.where(g[1]) if g else fn.where(),
                          f"'{kind}' reference = {show(wt)[:60]}",
                          f"reference '{kind}' must be {'start + width/2' if kind == 'center' else 'start + width' if kind == 'right' else 'start'}; found {show(g[0])[:120] if g else None}")


# --------------------------------------------------------------- refs guard
def _eval_ref(lit, kind):
    """kind in center/right/left/otherstr/callable/other ; None = unknown."""
    ref = ("attr", SELF, "reference")
    low = ("call", ("attr", ref, "lower"), (), ())
    if lit[0] == "not":
        v = _eval_ref(lit[1], kind)
        return None if v is None else not v
    if lit == ("call", G("isinstance"), (ref, G("str")), ()):
        return kind in ("center", "right", "left", "otherstr")
    if lit == ("call", G("callable"), (ref,), ()):
        return kind == "callable"
    if lit[0] == "cmp" and lit[1] == "==" and lit[2] in (low, ref) and lit[3][0] == "const":
        return kind == lit[3][1]
    if lit[0] in ("and", "or"):
        vs = [_eval_ref(x, kind) for x in lit[1]]
        if lit[0] == "and":
            return False if False in vs else None if None in vs else True
        return True if True in vs else None if None in vs else False
    return None


def refs_guard(prog, rep):
    for cname in ("WidthOfIntervalSlicer", "NumberOfIntervalsSlicer"):
        q = f"{IV}.{cname}._slice"
        fn = prog.func(q)
        b = builder(prog, fn, inline=False)
        pcs = path_conditions(prog, fn, b)
        raises = [(st, exception_name(st, b)) for st in cfg_of(fn).all_stmts() if isinstance(st, ast.Raise)]
        table = {}
        for kind in ("center", "right", "left", "otherstr", "callable", "other"):
            hit = []
            for st, exc in raises:
                # literals that say nothing about the reference (e.g. 'some interval exists') do not select the kind
                vals = [_eval_ref(l, kind) for l in pcs.of(st) if mentions(l, ("attr", SELF, "reference")) or l[0] == "const" or (l[0] == "not" and l[1][0] == "const")]
                if None in vals:
                    hit.append(f"{exc}?")
                elif all(vals):
                    hit.append(exc)
            table[kind] = hit
        want = {"center": [], "right": [], "left": [], "otherstr": ["ValueError"], "callable": [], "other": ["TypeError"]}
        for kind in want:
            rep.check(table[kind] == want[kind], "C10.refs", f"{q}:guard:{kind}", fn.where(),
                      f"reference kind '{kind}' -> {want[kind] or 'accepted'}",
                      f"reference of kind '{kind}' must {'raise ' + want[kind][0] if want[kind] else 'be accepted'}; reaches {table[kind] or 'no raise'}")


# --------------------------------------------------------------------- drop
def drop(prog, rep):
    q = f"{IV}.IntervalSlicer._drop_too_small_intervals"
    fn = prog.func(q)
    rep.analysed(fn)
    b = builder(prog, fn, inline=False)
    pcs = path_conditions(prog, fn, b)
    formals = [p for p in fn.positional_params if p != "self"]
    ret = [s for s in cfg_of(fn).all_stmts() if isinstance(s, ast.Return)][0]
    if not isinstance(ret.value, ast.Tuple) or len(ret.value.elts) != 3:
        raise AnalysisError(f"{q}: expected a 3-tuple return")
    outnames = [e.id if isinstance(e, ast.Name) else None for e in ret.value.elts]
    rt = b.term(ret.value, ret)
    zt = ("call", G("zip"), tuple(("param", f) for f in formals), ())
    if rt[0] == "tuple" and len(rt[1]) == 3 and all(x[0] == "comp" for x in rt[1]) and not any(appended(fn, b, nm) for nm in outnames if nm):
        # kept = [(m, r, b) for m, r, b in zip(...) if sum(m) >= min]; out_k = [t[k] for t in kept]
        for k, proj in enumerate(rt[1]):
            kept = proj[4]
            ok = False
            why = f"output {k} must be the {k}-th component of the triples that passed the size test"
            if kept == zt:
                # the projection read as one comprehension over the zipped inputs (a comprehension over the kept triples is that)
                i = ("idx", proj[3], "zip")
                conds = proj[5] if isinstance(proj[5], tuple) else ()
                ok = proj[2] == ("sub", ("param", formals[k]), i) and len(conds) == 1 and _size_test(conds[0], ("sub", ("param", formals[0]), i))
                if not ok:
                    why = f"an interval is kept iff np.sum(mask) >= self.min_n_points (of the same interval) and output {k} takes input {k} of that interval; found {show(proj)[:160]}"
            if kept[0] == "comp" and kept[4] == zt and kept[2][0] == "tuple" and len(kept[2][1]) == 3:
                i = ("idx", kept[3], "zip")
                trip_ok = kept[2][1] == tuple(("sub", ("param", f), i) for f in formals)
                mask = ("sub", ("param", formals[0]), i)
                conds = kept[5] if isinstance(kept[5], tuple) else ()
                cond_ok = len(conds) == 1 and _size_test(conds[0], mask)
                j = ("idx", proj[3], "iter")
                proj_ok = proj[2] == ("sub", ("sub", kept, j), ("const", k)) or proj[2] == ("item", ("sub", kept, j), k) or proj[2] == ("sub", ("param", formals[k]), i)
                # element j of the kept list, component k
                if not proj_ok and proj[2][0] in ("sub", "item"):
                    proj_ok = proj[2][-1] in (k, ("const", k)) and proj[2][1] == ("sub", kept, j)
                ok = trip_ok and cond_ok and proj_ok and not proj[5]
                if trip_ok and not cond_ok:
                    why = f"an interval is kept iff np.sum(mask) >= self.min_n_points (of the same interval); found condition {[show(c)[:80] for c in conds]}"
            rep.check(ok, "C10.drop", f"{q}:out{k}", fn.where(ret), f"out[{k}] <- in[{k}][i] iff sum(mask_i) >= min_n_points", why)
        rep.ok("C10.drop", f"{q}:zip", fn.where(), "one pass over zip(slices, references, boundaries)")
        return
    for k, nm in enumerate(outnames):
        aps = appended(fn, b, nm) if nm else []
        ok = False
        why = f"output {k} must collect the {k}-th input of the interval that passed the size test"
        if len(aps) == 1:
            st, x = aps[0]
            zt = ("call", G("zip"), tuple(("param", f) for f in formals), ())
            okarg = x[0] == "sub" and x[1] == ("param", formals[k]) and x[2][0] == "idx" and x[2][2] == "zip"
            mask = ("sub", ("param", formals[0]), x[2]) if okarg else None
            cond_ok = False
            for l in pcs.of(st):
                if _size_test(l, mask):
                    cond_ok = True
            ok = okarg and cond_ok and len(pcs.of(st)) == 1
            if okarg and not cond_ok:
                why = f"an interval is kept iff np.sum(mask) >= self.min_n_points (of the same interval); found condition {[show(l)[:80] for l in pcs.of(st)]}"
        rep.check(ok, "C10.drop", f"{q}:out{k}", fn.where(ret), f"out[{k}] <- in[{k}][i] iff sum(mask_i) >= min_n_points", why)
    loops = [s for s in cfg_of(fn).all_stmts() if isinstance(s, ast.For)]
    ok = len(loops) == 1 and b.term(loops[0].iter, loops[0]) == ("call", G("zip"), tuple(("param", f) for f in formals), ())
    rep.check(ok, "C10.drop", f"{q}:zip", fn.where(), "one loop over zip(slices, references, boundaries)",
              "mask, reference and boundary of one interval must be walked together (zip of the three inputs in order)")


def _size_test(l, mask):
    """min_n_points <= number of points of this mask (either way round)"""
    o = ordered(l)
    return o is not None and not o[2] and o[0] == ("attr", SELF, "min_n_points") and o[1] in (
        ("call", G("numpy.sum"), (mask,), ()), ("call", G("numpy.count_nonzero"), (mask,), ()))


# ---------------------------------------------------------------------- min
def minimum(prog, rep):
    q = f"{IV}.IntervalSlicer.slice_"
    fn = prog.func(q)
    b = builder(prog, fn, inline=False)
    pcs = path_conditions(prog, fn, b)
    cfg = cfg_of(fn)
    sl = ("call", ("attr", SELF, "_slice"), (DATA,), ())
    raises = [st for st in cfg.all_stmts() if isinstance(st, ast.Raise)]
    good = None
    for st in raises:
        pc = pcs.of(st)
        want = CMP("<", ("call", G("len"), (IT(sl, 0),), ()), ("attr", SELF, "min_n_intervals"))
        if exception_name(st, b) == "RuntimeError" and pc == (want,):
            good = st
    rep.check(good is not None, "C10.min", f"{q}:raise", fn.where(good) if good else fn.where(),
              "RuntimeError iff len(masks) < min_n_intervals", "slicing must raise RuntimeError exactly when fewer than self.min_n_intervals intervals remain after _slice")
    rets = [st for st in cfg.all_stmts() if isinstance(st, ast.Return)]
    if good is not None:
        ifnode = cfg.node(cfg.enclosing(good)[-1][0])
        rep.check(all(cfg.dominates(ifnode, cfg.node(r)) for r in rets), "C10.min", f"{q}:dominates", fn.where(),
                  "the size test dominates every return", "the interval-count test must be on every path to the return")
    okr = bool(rets)
    for r_ in rets:
        m_t, _ref_t, b_t = _triple_of(fn, b, r_)
        okr = okr and m_t == IT(sl, 0) and b_t == IT(sl, 2)
    rep.check(okr, "C10.min", f"{q}:returns", fn.where(), "returns the masks and boundaries of _slice(data) unchanged",
              "slice_ must return the masks and boundaries computed by _slice(data)")


def _nonzero(lits, x):
    """Does one of the path-condition literals say that x is not zero / not empty?"""
    zero, one = ("const", 0), ("const", 1)
    for l in lits:
        if l == x or l == ("not", ("not", x)) or l == ("not", CMP("==", x, zero)):
            return True
        o = ordered(l)
        if o is not None and ((o[0] == zero and o[1] == x and o[2]) or (o[0] == one and o[1] == x and not o[2])):
            return True
        if l[0] == "not":
            o = ordered(l[1])
            if o is not None and ((o[0] == x and o[1] == zero and not o[2]) or (o[0] == x and o[1] == one and o[2])):
                return True
    return False


def _le(l, lo, hi):
    """literal says lo <= hi"""
    o = ordered(l)
    if o is not None and o[0] == lo and o[1] == hi:
        return True
    if l[0] == "not":
        o = ordered(l[1])
        return o is not None and o[0] == hi and o[1] == lo and o[2]
    return False


def _const_int(node):
    if isinstance(node, ast.Constant) and isinstance(node.value, int) and not isinstance(node.value, bool):
        return node.value
    if isinstance(node, ast.UnaryOp) and isinstance(node.op, ast.USub) and isinstance(node.operand, ast.Constant) and isinstance(node.operand.value, int):
        return -node.operand.value
    return None


def _own_nodes(st):
    """expression nodes evaluated by the statement itself (not by the statements nested in it)"""
    todo = []
    for name, val in ast.iter_fields(st):
        if name in ("body", "orelse", "finalbody", "handlers"):
            continue
        todo.extend(val if isinstance(val, list) else [val])
    for v in todo:
        if isinstance(v, ast.AST):
            yield from ast.walk(v)


def empty_data(prog, rep):
    """An empty data vector is in scope (length <= 5 includes 0): zero intervals remain and slice_ must report them (RuntimeError, or three empty lists
    when min_n_intervals = 0).  max / min of the data taken before any length test raise ValueError instead."""
    for cls in ("WidthOfIntervalSlicer", "NumberOfIntervalsSlicer"):
        q = f"{IV}.{cls}._slice"
        fn = prog.func(q)
        b = builder(prog, fn, inline=False)
        pcs = path_conditions(prog, fn, b)
        data = ("param", "data")
        n = ("call", G("len"), (data,), ())
        bad = []
        seen = 0
        for st in cfg_of(fn).all_stmts():
            for node in _own_nodes(st):
                if isinstance(node, ast.Call):
                    t = b.term(node, st)
                    if t[0] == "call" and t[1] in (G("numpy.max"), G("numpy.min"), G("max"), G("min"), G("numpy.amax"), G("numpy.amin")) and t[2][:1] == (data,):
                        seen += 1
                        lits = pcs.of(st)
                        if not (_nonzero(lits, n) or _nonzero(lits, ("attr", data, "size")) or _nonzero(lits, data)):
                            bad.append(st)
        if seen == 0:
            rep.ok("C10.min", f"{q}:empty-data", fn.where(), "no reduction of the data found", nontrivial=False)
            continue
        rep.check(not bad, "C10.min", f"{q}:empty-data", fn.where(bad[0]) if bad else fn.where(), "max / min of the data are taken only where there are data",
                  "np.max(data) / min(data) is evaluated although data may be empty: slice_(np.array([])) raises ValueError ('zero-size array to reduction operation') "
                  "instead of the RuntimeError for too few intervals (an explicit value_range gives the RuntimeError); return the three empty lists for empty data first")


def empty_exits(prog, rep):
    """A _slice may leave early where nothing survived: it must hand back that (empty) list of masks, so that slice_ counts zero intervals."""
    for ci in slicers(prog):
        fn = prog.lookup_method(ci, "_slice")
        b = builder(prog, fn, ci, inline=False)
        rs = all_returns(fn, b)
        main = [tr for _r, tr, e in rs if not e]
        for r, tr, e in rs:
            if not e:
                continue
            ok = len(main) == 1 and (tr[0] == main[0][0] or tr[0] == ("list", ())) and (tr[2] == ("list", ()) or tr[2] == main[0][2])
            rep.check(ok, "C10.min", f"{fn.qualname}:empty-exit", fn.where(r), "an exit with no interval left returns the empty list of masks (slice_ then counts 0 intervals)",
                      f"the exit taken when no interval is left must return that empty list of masks and no boundaries; found {show(tr[0])[:80]} / {show(tr[2])[:60]}")


# ---------------------------------------------------------------------- ppi
def ppi(prog, rep):
    q = f"{IV}.PointsPerIntervalSlicer._slice"
    fn = prog.func(q)
    b = builder(prog, fn, inline=False)
    pcs = path_conditions(prog, fn, b)
    cfg = cfg_of(fn)
    srt = ("call", G("numpy.argsort"), (DATA,), ())
    n = ("call", G("len"), (DATA,), ())
    npts = ("attr", SELF, "n_points")
    full = ("bin", "//", n, npts)
    rem = ("bin", "%", n, npts)
    lf = ("attr", SELF, "last_full")
    rem_nz = ("not", CMP("==", rem, ("const", 0)))
    cases = {}
    for st in cfg.all_stmts():
        if isinstance(st, ast.Assign) and isinstance(st.value, ast.Call):
            t = b.term(st.value, st)
            if t[0] == "call" and t[1] == G("numpy.split"):
                pc = set(pcs.of(st))
                key = ("rem", True) if rem_nz in pc and lf in pc else ("rem", False) if rem_nz in pc and ("not", lf) in pc else ("norem",) if CMP("==", rem, ("const", 0)) in pc else None
                cases[key] = (st, t)
    def sl(lo, hi):
        return ("sub", srt, ("slice", lo, hi, NONE))
    cut = ("bin", "-", n, rem)
    want = {("rem", True): sl(rem, NONE), ("rem", False): sl(NONE, cut), ("norem",): srt}
    extra = {("rem", True): ("insert", sl(NONE, rem)), ("rem", False): ("append", sl(cut, NONE))}
    for key, arr in want.items():
        c = cases.get(key)
        inst = f"{q}:chunks:{'/'.join(map(str, key))}"
        ok = c is not None and c[1][2] == (arr, full)
        rep.check(ok, "C10.ppi", inst, fn.where(c[0]) if c else fn.where(), f"np.split({show(arr)[:50]}, n_full_chunks)",
                  f"full chunks must be np.split of the argsort piece {show(arr)[:60]} into len(data)//n_points parts; found {show(c[1])[:140] if c else None}")
        if key in extra and c is not None:
            meth, piece = extra[key]
            found = False
            tgt = c[0].targets[0].id if isinstance(c[0].targets[0], ast.Name) else None
            for st in cfg.all_stmts():
                if isinstance(st, ast.Expr) and isinstance(st.value, ast.Call) and isinstance(st.value.func, ast.Attribute) and st.value.func.attr == meth \
                        and isinstance(st.value.func.value, ast.Name) and st.value.func.value.id == tgt and set(pcs.of(st)) == set(pcs.of(c[0])):
                    args = [b.term(a, st) for a in st.value.args]
                    found = (args == [("const", 0), piece]) if meth == "insert" else (args == [piece])
            # ... or by list concatenation: [piece] + chunks / chunks + [piece], on the same branch
            cat = ("bin", "+", ("list", (piece,)), c[1]) if meth == "insert" else ("bin", "+", c[1], ("list", (piece,)))
            for st in cfg.all_stmts():
                if isinstance(st, ast.Assign) and isinstance(st.value, ast.BinOp) and b.term(st.value, st) == cat and set(pcs.of(st)) == set(pcs.of(c[0])):
                    found = True
            rep.check(found, "C10.ppi", inst + ":remainder", fn.where(c[0]), f"remainder chunk {show(piece)[:50]} placed {'first' if meth == 'insert' else 'last'}",
                      f"the remainder chunk {show(piece)[:60]} must be {'inserted first' if meth == 'insert' else 'appended last'} ({'last_full' if meth == 'insert' else 'not last_full'})")
    # totality: a data vector shorter than n_points has no full chunk (np.split(x, 0) divides by zero) and one in which
    # every interval is dropped has no first interval - both must end in slice_'s RuntimeError, not in a crash
    for key, c in sorted(cases.items(), key=lambda kv: kv[1][0].lineno):
        cnt = c[1][2][1] if len(c[1][2]) > 1 else None
        if cnt is None or cnt[0] == "const":
            continue
        lits = pcs.of(c[0])
        ok = _nonzero(lits, cnt) or (cnt == full and any(_le(l, npts, n) for l in lits))
        rep.check(ok, "C10.ppi", f"{q}:split-count:{'/'.join(map(str, key)) if key else c[0].lineno}", fn.where(c[0]),
                  f"np.split into {show(cnt)[:40]} sections only where that count is not zero",
                  f"np.split(..., {show(cnt)[:60]}) is reached with a zero section count when the data has fewer than n_points observations "
                  f"(ZeroDivisionError instead of one short interval / the RuntimeError of slice_); path condition: {[show(l)[:60] for l in lits]}")
    for st in cfg.all_stmts():
        for node in _own_nodes(st):
            if isinstance(node, ast.Subscript) and isinstance(node.ctx, ast.Load) and _const_int(node.slice) is not None:
                base = b.term(node.value, st)
                if not (base[0] == "sub" and base[2][0] == "const" and base[1][0] == "call" and base[1][1] == ("attr", SELF, "_drop_too_small_intervals")):
                    continue
                lits = pcs.of(st)
                ln = ("call", G("len"), (base,), ())
                sib = [("call", G("len"), (("sub", base[1], ("const", k)),), ()) for k in range(3)]
                ok = any(_nonzero(lits, x) for x in [ln, base] + sib)
                rep.check(ok, "C10.ppi", f"{q}:first-interval:{ast.unparse(node)[:40]}", fn.where(st),
                          "an element of the surviving intervals is read only where some interval survived",
                          f"{ast.unparse(node)[:60]} is read although every interval may have been dropped (IndexError instead of the RuntimeError of slice_); "
                          f"path condition: {[show(l)[:60] for l in lits]}")
    # masks: membership of the POSITION in the chunk - a mask that sees the chunk only through the values data[chunk]
    # (np.isin(data, data[idc])) cannot tell tied observations apart and puts a tie across a chunk boundary in two intervals
    rets = [s for s in cfg.all_stmts() if isinstance(s, ast.Return)]
    main, (mt, _rt, _bt) = ret_triple(fn, b)
    rets = [main]
    # the comprehension over the chunks (possibly behind _drop_too_small_intervals(...)[0])
    comps = [s_ for s_ in walk(mt)] if mt is not None else []
    comps = [s_ for s_ in comps if s_[0] == "comp" and s_[1] == "list" and isinstance(s_[5], tuple) and (not s_[5] or s_[5][0] != "nested")
             and any(w_[0] == "call" and w_[1] == G("numpy.split") for w_ in walk(s_[4]))]
    mt = comps[0] if comps else None
    if mt is not None:
        chunk = ("sub", mt[4], ("idx", mt[3], "iter"))
        by_value = subst(mt[2], {("sub", DATA, chunk): ("sym", "values-of-chunk")})
        rep.check(mentions(by_value, chunk), "C10.ppi", f"{q}:masks-by-position", fn.where(rets[0]),
                  "each mask is the membership of the observation's position in its chunk of the argsort",
                  f"the mask of a chunk must mark the POSITIONS in the chunk; found {show(mt[2])[:140]}, which sees the chunk only through the values "
                  "data[chunk]: observations tied across a chunk boundary are put in both intervals")
    else:
        rep.ok("C10.ppi", f"{q}:masks-by-position", fn.where(), "mask construction not a comprehension over the chunks: alignment decided by C10.align only", nontrivial=False)
    # boundaries: midpoint of neighbouring extremes
    mids = []
    for st in cfg.all_stmts():
        for node in _own_nodes(st):
            if isinstance(node, ast.BinOp) and isinstance(node.op, ast.Div):
                mids.append((st, b.term(node, st)))
    okm = False
    for st, t in mids:
        if t[0] == "bin" and t[1] == "/" and algebra.same(t[3], ("const", 2)) and t[2][0] == "bin" and t[2][1] == "+":
            a, c = t[2][2], t[2][3]
            if a[0] == "call" and a[1] == G("numpy.min") and c[0] == "call" and c[1] == G("numpy.max"):
                a, c = c, a  # min(next) + max(current)
            if a[0] == "call" and a[1] == G("numpy.max") and c[0] == "call" and c[1] == G("numpy.min"):
                nxt = c[2][0]
                cur = a[2][0]
                # neighbours taken from one sequence X of the intervals' data: X[:-1][k] and X[1:][k]
                if cur[0] == "sub" and nxt[0] == "sub" and cur[2] == nxt[2] and cur[1][0] == "sub" and nxt[1][0] == "sub" and cur[1][1] == nxt[1][1] \
                        and cur[1][2] == ("slice", NONE, ("const", -1), NONE) and nxt[1][2] == ("slice", ("const", 1), NONE, NONE) and mentions(cur[1][1], DATA):
                    okm = True
                    continue
                # next_interval = data[masks[i+1]] ; interval in {data[masks[0]], previous next_interval}
                masks_t = None
                if nxt[0] == "sub" and nxt[1] == DATA and nxt[2][0] == "sub":
                    sel = nxt[2]
                    if sel[2][0] == "bin" and sel[2][1] == "+" and algebra.same(sel[2][3], ("const", 1)) and sel[2][2][0] == "idx":
                        masks_t = sel[1]  # masks[i + 1] for the loop's i
                    elif sel[2][0] == "idx" and sel[1][0] == "sub" and sel[1][2] == ("slice", ("const", 1), NONE, NONE):
                        masks_t = sel[1][1]  # element of masks[1:]
                if masks_t is not None:
                    first = ("sub", DATA, ("sub", masks_t, ("const", 0)))
                    okm = all(x == first or x == nxt or x[0] == "cyc" for x in alts(cur))
    rep.check(okm, "C10.ppi", f"{q}:midpoint", fn.where(), "boundary = (max(interval_i) + min(interval_i+1)) / 2",
              "the boundary between two intervals must be the mean of the largest value of the lower and the smallest value of the higher interval")
