"""Shared row: the functions a property quantifies over keep no state between calls.

A property stated "for every input" holds for the second call on an object only if the first call left nothing behind:
the evaluation functions must not write attributes of their object, mutate an object held in an attribute, mutate their
arguments, or mutate module-level state.  Decided from the effect summaries (vstat/effects.py, the C19 analysis)."""
from vstat.effects import Effects
from vstat.loader import AnalysisError

_eff = {}

# deliberate memo, see C19 (ALLOW_SELF_WRITE)
ALLOW = {("virocon.jointmodels.TransformedModel.empirical_cdf", "_sample"), ("virocon.jointmodels.TransformedModel.sample", "_sample")}


def memo_group(prog):
    """attributes that belong to the sample memo of TransformedModel: `_sample` and what is stored together with it, in the same
    branch of the `sample` property (the key the memo was drawn for)"""
    import ast as _ast
    try:
        fn = prog.func("virocon.jointmodels.TransformedModel.sample")
    except Exception:
        return {"_sample"}
    from vstat.terms import builder as _b
    from vstat.guards import path_conditions as _pc
    from vstat.cfg import cfg_of as _cfg
    b = _b(prog, fn, inline=False)
    pcs = _pc(prog, fn, b)
    stores = [(st, st.targets[0].attr) for st in _cfg(fn).all_stmts() if isinstance(st, _ast.Assign) and isinstance(st.targets[0], _ast.Attribute)
              and isinstance(st.targets[0].value, _ast.Name) and st.targets[0].value.id == "self"]
    memo = [st for st, a in stores if a == "_sample"]
    if not memo:
        return {"_sample"}
    cond = set(pcs.of(memo[0]))
    return {"_sample"} | {a for st, a in stores if set(pcs.of(st)) == cond}


def allowed(prog, qualname, attr):
    if (qualname, attr) in ALLOW:
        return True
    return qualname in ("virocon.jointmodels.TransformedModel.empirical_cdf", "virocon.jointmodels.TransformedModel.sample") and attr in memo_group(prog)


def effects(prog):
    if id(prog) not in _eff:
        _eff[id(prog)] = Effects(prog)
    return _eff[id(prog)]


def methods(prog, spec):
    """spec: {class qualname: [method names]} or list of function qualnames -> FunctionInfo list (own definitions only)."""
    out = []
    if isinstance(spec, dict):
        for cq, ms in spec.items():
            ci = prog.cls(cq)
            for m in ms:
                f = prog.lookup_method(ci, m)
                if f is None:
                    raise AnalysisError(f"{cq}.{m} not found")
                out.append(f)
    else:
        for q in spec:
            out.append(prog.func(q))
    seen, uniq = set(), []
    for f in out:
        if f.qualname not in seen:
            seen.add(f.qualname)
            uniq.append(f)
    return uniq


def stateless(prog, rep, rule, fns, self_writes_allowed=False, what="evaluation"):
    """One obligation per function: (transitively) no write to self attributes, no mutation of an object held by self,
    of a parameter or of module-level state.  With self_writes_allowed (contour computations store their own results)
    only parameter / global mutation is refused."""
    eff = effects(prog)
    for fn in fns:
        rep.analysed(fn)
        s = eff.summ[fn.qualname]
        bad = []
        for r in sorted(s["mut"]):
            if r[0] in ("param", "global"):
                ln, why = s["why"].get(r, (fn.node.lineno, ""))
                bad.append((f"{r[0]}:{r[1]}", f"{fn.file}:{ln}", f"{what} mutates {'the argument' if r[0] == 'param' else 'module-level state'} '{r[1]}': {why}"[:300]))
            elif r[0] == "selfattr" and not self_writes_allowed and not allowed(prog, fn.qualname, r[1]):
                ln, why = s["why"].get(r, (fn.node.lineno, ""))
                bad.append((f"self.{r[1]}[...]", f"{fn.file}:{ln}", f"{what} mutates the object held in self.{r[1]}: {why}"[:300]))
        if not self_writes_allowed:
            for a in sorted(s["selfw"]):
                if not allowed(prog, fn.qualname, a):
                    bad.append((f"self.{a}", fn.where(), f"{what} writes attribute self.{a}: the next call on the same object sees the value left by this one"))
        if bad:
            for inst, site, msg in bad:
                rep.fail(rule, f"{fn.qualname}:{inst}", site, msg)
        else:
            rep.ok(rule, fn.qualname, fn.where(), "keeps no state between calls (no write to self / arguments / globals, transitively)")


# ------------------------------------------------------------------ per-property tables
JM, DI, CO, DE, IVM = "virocon.jointmodels", "virocon.distributions", "virocon.contours", "virocon.dependencies", "virocon.intervals"


def _family_methods(prog, names):
    from .distfam import families
    out = []
    for fam in families(prog, include_generic=True):
        for m in names:
            out.append(fam.m[m])
    return out


def _strict(prog, pid):
    cd = {f"{DI}.ConditionalDistribution": ["pdf", "cdf", "icdf", "draw_sample", "_get_param_values"], f"{DE}.DependenceFunction": ["__call__"]}
    ghm = f"{JM}.GlobalHierarchicalModel"
    mvm = f"{JM}.MultivariateModel"
    tm = f"{JM}.TransformedModel"
    if pid == "C01":
        return methods(prog, {ghm: ["conditional_icdf"], f"{DI}.ConditionalDistribution": ["icdf", "_get_param_values"]}) + _family_methods(prog, ["icdf", "_get_scipy_parameters"])
    if pid == "C02":
        return methods(prog, {f"{DI}.ConditionalDistribution": ["cdf", "_get_param_values"]}) + _family_methods(prog, ["cdf", "_get_scipy_parameters"])
    if pid == "C15":
        # the enclosed region is computed from the model's cdf on every construction: a cdf that remembers an earlier model gives the boundary of another region
        return methods(prog, {f"{DI}.ConditionalDistribution": ["cdf", "_get_param_values"]}) + _family_methods(prog, ["cdf", "_get_scipy_parameters"])
    if pid == "C03":
        return methods(prog, {ghm: ["draw_sample"]})
    if pid == "C04":
        return methods(prog, {ghm: ["draw_sample", "marginal_icdf"], mvm: ["marginal_icdf"]})
    if pid == "C05":
        return _family_methods(prog, ["cdf", "icdf", "pdf", "draw_sample", "_get_scipy_parameters"])
    if pid == "C06":
        return methods(prog, {ghm: ["pdf", "marginal_pdf", "marginal_cdf", "marginal_icdf"], mvm: ["cdf", "marginal_icdf"]})
    if pid == "C07":
        return methods(prog, {ghm: ["draw_sample"], tm: ["draw_sample"], mvm: ["conditional_sample"], f"{DI}.ConditionalDistribution": ["draw_sample"]}) + _family_methods(prog, ["draw_sample", "_get_rvs_size"] if False else ["draw_sample"])
    if pid == "C08":
        return methods(prog, cd)
    if pid == "C14":
        # a dependent function is fitted against the CURRENT values of its conditioners: evaluation remembers nothing
        return methods(prog, {f"{DE}.DependenceFunction": ["__call__"]})
    if pid == "C20":
        # the plot functions draw (x, pdf(x)) for arrays they made themselves: a pdf that writes into its argument moves the abscissae
        return methods(prog, {ghm: ["pdf"], f"{DI}.ConditionalDistribution": ["pdf", "_get_param_values"], f"{DE}.DependenceFunction": ["__call__"]}) + _family_methods(prog, ["pdf", "_get_scipy_parameters"])
    if pid == "C16":
        return methods(prog, {tm: ["pdf", "cdf", "empirical_cdf", "draw_sample"], mvm: ["conditional_cdf", "conditional_icdf", "conditional_sample"]})
    return []


def _lenient(prog, pid):
    free = {"C15": ["virocon.utils.sort_points_to_form_continuous_line",
                    # the consumers of a contour must leave contour.coordinates as the constructor returned them
                    "virocon.utils.calculate_design_conditions", "virocon.plotting.plot_2D_contour", "virocon.contours.save_contour_coordinates"],
            "C17": ["virocon.utils.calculate_design_conditions", "virocon._intersection.intersection"],
            "C20": ["virocon.contours.save_contour_coordinates", "virocon.plotting.plot_2D_contour", "virocon.plotting.plot_2D_isodensity", "virocon.utils.read_ec_benchmark_dataset"]}
    cls = {"C01": ["IFORMContour", "ISORMContour"], "C02": ["HighestDensityContour"], "C03": ["DirectSamplingContour"], "C04": ["AndContour", "OrContour"],
           "C15": ["HighestDensityContour"]}
    out = []
    for c in cls.get(pid, []):
        ci = prog.cls(f"{CO}.{c}")
        out += [m for m in ci.methods.values()]
    out += methods(prog, free.get(pid, []))
    return out


def row(prog, rep, pid, minimum=1):
    """The '<pid>.stateless' obligations of one property."""
    rule = f"{pid}.stateless"
    try:
        rep.explanation = (rep.explanation or "") + (f" {rule}: the functions this property quantifies over keep no state between calls - evaluation methods write no "
                                                       "attribute of their object and mutate nothing it holds, no argument and no module-level object (transitively, effect "
                                                       "summaries of vstat/effects.py); contour computations may store their own results but mutate neither model nor arguments.")
    except Exception:
        pass
    st = _strict(prog, pid)
    le = [f for f in _lenient(prog, pid) if f.qualname not in {g.qualname for g in st}]
    if st:
        stateless(prog, rep, rule, st)
    if le:
        stateless(prog, rep, rule, le, self_writes_allowed=True, what="the computation")
    rep.expect_min(rule, minimum)


# ------------------------------------------------------------------ fresh draws
def _self_attr_stores(fn):
    """names X of 'self.X = ...', 'self.X += ...', 'self.X[...] = ...' in a method"""
    import ast
    out = set()
    for n in ast.walk(fn.node):
        tgts = []
        if isinstance(n, ast.Assign):
            tgts = n.targets
        elif isinstance(n, (ast.AugAssign, ast.AnnAssign)):
            tgts = [n.target]
        for t in tgts:
            for e in ([t] if not isinstance(t, (ast.Tuple, ast.List)) else t.elts):
                while isinstance(e, ast.Subscript):
                    e = e.value
                if isinstance(e, ast.Attribute) and isinstance(e.value, ast.Name) and e.value.id == "self":
                    out.add(e.attr)
    return out


def fresh_draw(prog, rep, rule, base=f"{JM}.MultivariateModel"):
    """A model's draw_sample(n) draws n new points on every call: it reads no attribute that a method other than the
    constructor (or a fit) writes - a remembered sample has the length of an earlier request, not of this one."""
    import ast
    root = prog.cls(base)
    n = 0
    for ci in prog.subclasses(root):
        fn = ci.methods.get("draw_sample")
        if fn is None or not fn.body:
            continue
        if all(isinstance(s, (ast.Pass, ast.Expr, ast.Raise)) for s in fn.body):
            continue  # abstract declaration
        rep.analysed(fn)
        lazy = {}
        for c in ci.mro:
            for name, m in c.methods.items():
                if name in ("__init__", "fit") or name.startswith("_fit") or m is fn:
                    continue
                for a in _self_attr_stores(m):
                    lazy.setdefault(a, m.qualname)
        reads = {}
        for x in ast.walk(fn.node):
            if isinstance(x, ast.Attribute) and isinstance(x.ctx, ast.Load) and isinstance(x.value, ast.Name) and x.value.id == "self" and x.attr in lazy:
                reads.setdefault(x.attr, x)
        n += 1
        if reads:
            for a, node in sorted(reads.items()):
                rep.fail(rule, f"{fn.qualname}:self.{a}", fn.where(node),
                         f"draw_sample reads self.{a}, which {lazy[a]} writes between calls: the returned sample then depends on an earlier request "
                         "(its length, its values) instead of being n new points")
        else:
            rep.ok(rule, fn.qualname, fn.where(), "reads only what the constructor / fit set: every call draws anew")
    rep.expect_min(rule, 2)
    return n
