"""C03 - direct-sampling contour edges are (1-alpha)-quantile tangent lines of the sample (wiring/formula)."""
import ast

from vstat.loader import AnalysisError
from vstat.terms import CMP, builder, show, SELF, NONE, G, alts, walk, mentions, phi, subst, strip_none
from vstat.guards import path_conditions
from vstat.cfg import cfg_of
from vstat.sigs import bind, bind_arange
from vstat import algebra
from .ctor import ctor_stores

DS = "virocon.contours.DirectSamplingContour"
P = lambda n: ("param", n)
EXPL = ("C03.n: n defaults to int(100/alpha) and the sample is drawn with it; C03.proj: r[i] = np.quantile(x cos a_i + y sin a_i, 1 - alpha) with x, y "
        "columns 0, 1 of the sample, the same angle element in both terms, stored at the same i, for every i; C03.cramer: with (a1, r1), (a2, r2) the "
        "same pair of slices (shifted by one) on angles and radii, (x_cont, y_cont) equals the solution of x cos a_k + y sin a_k = r_k as rational "
        "functions of cos/sin/r atoms (normal-form comparison); C03.wrap: angles and radii are both closed with their own first element; C03.step: "
        "successive directions differ by deg_step*pi/180; C03.grid: the direction grid must be enumerated by count - a float-step np.arange whose "
        "symbolic length is an integer for every admissible deg_step has its number of elements decided by rounding.")
ASSUME = ["numpy.quantile semantics for ties / heavy tails and Monte-Carlo adequacy are not decided"]


def run(prog, rep):
    rep.explanation = EXPL
    rep.assumptions = ASSUME
    rep.part(default_n, prog, rep, DS, "C03.n")
    rep.part(compute, prog, rep)
    rep.part(ctor_stores, prog, rep, "C03.ctor", DS, ["model", "alpha", "deg_step", "sample"])
    rep.expect_min("C03.ctor", 2)
    rep.expect_min("C03.n", 2)
    rep.expect_min("C03.proj", 3)
    rep.expect_min("C03.cramer", 2)
    rep.expect_min("C03.wrap", 2)
    rep.expect_min("C03.step", 1)
    rep.expect_min("C03.grid", 1)
    from .purity import row as _stateless_row
    rep.part(_stateless_row, prog, rep, "C03", 2)
    # "when no sample is supplied n = int(100/alpha) points are drawn": the model's draw_sample(n) must draw n new points
    from .purity import fresh_draw
    rep.part(fresh_draw, prog, rep, "C03.draw")
    rep.explanation += (" C03.draw: draw_sample of every joint model reads no attribute that is written between calls (a remembered sample has the "
                        "length of an earlier request): the n points asked for are n new points.")

def default_n(prog, rep, cls, rule):
    fn = prog.func(f"{cls}.__init__")
    rep.analysed(fn)
    b = builder(prog, fn, inline=False)
    pcs = path_conditions(prog, fn, b)
    ok = False
    for st in cfg_of(fn).all_stmts():
        if isinstance(st, ast.Assign) and isinstance(st.targets[0], ast.Attribute) and st.targets[0].attr == "n":
            t = b.term(st.value, st)
            want = {P("n"), ("call", G("int"), (("bin", "/", ("const", 100), P("alpha")),), ())}
            got = set(alts(t))
            ok = got == want
            if ok and isinstance(st.value, ast.Name):
                for d in b.rd.reaching(st.value.id, st):
                    if d.kind == "assign":
                        ok = ok and tuple(pcs.of(d.stmt)) == (("isnone", P("n")),)
            elif t[0] == "ifexp":
                ok = t[1] in (("isnone", P("n")),)
    rep.check(ok, rule, f"{cls}.__init__:default-n", fn.where(), "self.n = n, or int(100 / alpha) when n is None",
              "without an explicit n the sample size must be int(100 / alpha), and an explicit n must be kept")
    cf = prog.func(f"{cls}._compute")
    bc = builder(prog, cf, inline=False)
    pc = path_conditions(prog, cf, bc)
    ok = False
    for st in cfg_of(cf).all_stmts():
        if isinstance(st, ast.Assign) and isinstance(st.value, ast.Call):
            t = bc.term(st.value, st)
            if t == ("call", ("attr", ("attr", SELF, "model"), "draw_sample"), (("attr", SELF, "n"),), ()):
                ok = ("isnone", ("attr", SELF, "sample")) in pc.of(st)
    rep.check(ok, rule, f"{cls}._compute:draw", cf.where(), "sample = self.model.draw_sample(self.n) iff no sample was supplied",
              "when no sample is supplied exactly self.n points must be drawn from the model (and a supplied sample must be used as is)")


def norm_slice(base, sl):
    """[lo:len(base)-c] -> [lo:-c]; returns (lo, hi) as ints with None for open ends, or None."""
    def val(x, is_hi):
        if x == NONE:
            return None
        if x[0] == "const" and isinstance(x[1], int):
            return x[1]
        if x[0] == "bin" and x[1] == "-" and x[2] == ("call", G("len"), (base,), ()) and x[3][0] == "const":
            return -x[3][1]
        return "?"
    if sl[0] != "slice" or sl[3] != NONE:
        return None
    lo, hi = val(sl[1], False), val(sl[2], True)
    if "?" in (lo, hi):
        return None
    return (lo or 0, hi)


def wrap_of(t):
    """np.array(np.concatenate((v, [v[0]]), axis=0)) / np.append(v, v[0]) -> v"""
    if t[0] == "call" and t[1] in (G("numpy.array"), G("numpy.asarray")) and len(t[2]) == 1:
        t = t[2][0]
    if t[0] == "call" and t[1] == G("numpy.concatenate") and t[2] and t[2][0][0] in ("tuple", "list") and len(t[2][0][1]) == 2:
        v, tail = t[2][0][1]
        if tail in (("list", (("sub", v, ("const", 0)),)), ("tuple", (("sub", v, ("const", 0)),))) and dict(t[3]).get("axis", ("const", 0)) == ("const", 0):
            return v
    if t[0] == "call" and t[1] == G("numpy.append") and len(t[2]) == 2 and t[2][1] == ("sub", t[2][0], ("const", 0)):
        return t[2][0]
    return None


def compute(prog, rep):
    q = f"{DS}._compute"
    fn = prog.func(q)
    rep.analysed(fn)
    b = builder(prog, fn, inline=True)   # a vertex formula moved into a helper of the class is looked through
    cfg = cfg_of(fn)
    cs = [s for s in cfg.all_stmts() if isinstance(s, ast.Assign) and isinstance(s.targets[0], ast.Attribute) and s.targets[0].attr == "coordinates"]
    if len(cs) != 1:
        raise AnalysisError(f"{q}: expected one store to self.coordinates")
    t = b.term(cs[0].value, cs[0])
    site = fn.where(cs[0])
    if t[0] != "cols" or len(t[1]) != 2:
        rep.fail("C03.cramer", f"{q}:columns", site, f"coordinates must be the two columns (x_cont, y_cont); found {show(t)[:120]}")
        return
    # find the wrapped arrays: sub-terms sliced inside cos()/sin()
    A = None
    for s in walk(t):
        if s[0] == "call" and s[1] in (G("numpy.cos"), G("numpy.sin")) and len(s[2]) == 1 and s[2][0][0] == "sub" and s[2][0][2][0] == "slice":
            A = s[2][0][1]
            break
    if A is None:
        rep.fail("C03.cramer", f"{q}:angles", site, "no sliced angle array inside cos/sin found in the vertex formula")
        return
    a_slices = {s[2] for s in walk(t) if s[0] == "sub" and s[1] == A and s[2][0] == "slice"}
    others = {}
    for s in walk(t):
        if s[0] == "sub" and s[2][0] == "slice" and s[1] != A and not mentions(s[1], A):
            others.setdefault(s[1], set()).add(s[2])
    R = None
    for k, v in others.items():
        R = k if R is None else R
    na = {norm_slice(A, s) for s in a_slices}
    nr = {norm_slice(R, s) for s in others.get(R, set())} if R is not None else set()
    ok = len(na) == 2 and None not in na and na == nr and len(others) == 1
    pair = sorted(na, key=lambda p_: p_[0]) if ok else None
    if ok:
        (l1, h1), (l2, h2) = pair
        hi = lambda h: 0 if h is None else h
        ok = l2 == l1 + 1 and hi(h2) == hi(h1) + 1
    rep.check(ok, "C03.cramer", f"{q}:slices", site, "the same two slices, shifted by one, on angles and radii",
              f"neighbouring tangent lines: angles and radii must be read with the SAME pair of slices, the second shifted by exactly one; "
              f"angle slices {sorted(map(str, na))} radius slices {sorted(map(str, nr))}")
    if ok:
        a_by = {norm_slice(A, s): s for s in a_slices}
        r_by = {norm_slice(R, s): s for s in others[R]}
        a1, a2, r1, r2 = ("sym", "a1"), ("sym", "a2"), ("sym", "r1"), ("sym", "r2")
        m = {("sub", A, a_by[pair[0]]): a1, ("sub", A, a_by[pair[1]]): a2, ("sub", R, r_by[pair[0]]): r1, ("sub", R, r_by[pair[1]]): r2}
        xt, yt = subst(t[1][0], m), subst(t[1][1], m)
        cos = lambda v: ("call", G("numpy.cos"), (v,), ())
        sin = lambda v: ("call", G("numpy.sin"), (v,), ())
        mul = lambda u, v: ("bin", "*", u, v)
        den = ("bin", "-", mul(cos(a1), sin(a2)), mul(cos(a2), sin(a1)))
        xw = ("bin", "/", ("bin", "-", mul(r1, sin(a2)), mul(r2, sin(a1))), den)
        yw = ("bin", "/", ("bin", "-", mul(cos(a1), r2), mul(cos(a2), r1)), den)
        okx = algebra.equal_rat(xt, xw)
        oky = algebra.equal_rat(yt, yw)
        rep.check(okx and oky, "C03.cramer", f"{q}:intersection", site, "(x, y) solves x cos a_k + y sin a_k = r_k, k = 1, 2 (normal-form equality)",
                  f"the vertex must be the intersection of the two tangent lines x cos a_k + y sin a_k = r_k: "
                  f"{'x' if not okx else ''}{' and ' if not okx and not oky else ''}{'y' if not oky else ''} component differs from Cramer's rule")
    # wrap-around
    va = wrap_of(A)
    vr = wrap_of(R) if R is not None else None
    rep.check(va is not None, "C03.wrap", f"{q}:angles", site, "angles closed with their own first element",
              f"the angle array must be closed with its own first element; found {show(A)[:140]}")
    rep.check(vr is not None, "C03.wrap", f"{q}:radii", site, "radii closed with their own first element",
              f"the radius array must be closed with its own first element; found {show(R)[:140] if R is not None else None}")
    if va is None or vr is None:
        return
    # projections: r[i] = quantile(x cos(angles[i]) + y sin(angles[i]), 1 - alpha)
    stores = [s for s in cfg.all_stmts() if isinstance(s, ast.Assign) and isinstance(s.targets[0], ast.Subscript) and b.term(s.targets[0].value, s) == vr]
    ok = False
    why = "no store r[i] = np.quantile(...) found"
    sample_t = None
    if len(stores) == 1:
        st = stores[0]
        i = b.term(st.targets[0].slice, st)
        v = b.term(st.value, st)
        bd = bind(v) if v[0] == "call" and v[1] == G("numpy.quantile") else None
        why = f"radius must be np.quantile(projection, 1 - alpha); found {show(v)[:160]}"
        if bd and set(bd) == {"a", "q"}:
            lvl = algebra.same(bd["q"], ("bin", "-", ("const", 1), ("attr", SELF, "alpha")))
            rep.check(lvl, "C03.proj", f"{q}:level", fn.where(st), "quantile level 1 - alpha",
                      f"a fraction alpha of the sample must lie beyond each edge: quantile level must be 1 - self.alpha, found {show(bd['q'])[:60]}")
            z = bd["a"]
            ang = ("sub", va, i)
            cosv, sinv = ("call", G("numpy.cos"), (ang,), ()), ("call", G("numpy.sin"), (ang,), ())
            okz = False
            if z[0] == "bin" and z[1] == "+":
                for u, w in ((z[2], z[3]), (z[3], z[2])):
                    if u[0] == "bin" and u[1] == "*" and w[0] == "bin" and w[1] == "*":
                        xu = u[3] if u[2] == cosv else u[2] if u[3] == cosv else None
                        yw_ = w[3] if w[2] == sinv else w[2] if w[3] == sinv else None
                        if xu is not None and yw_ is not None and xu[0] == "col" and yw_[0] == "col" and xu[1] == yw_[1] and (xu[2], yw_[2]) == (("const", 0), ("const", 1)):
                            okz = True
                            sample_t = xu[1]
            rep.check(okz, "C03.proj", f"{q}:projection", fn.where(st), "z = x cos(angles[i]) + y sin(angles[i]), stored at the same i",
                      f"the projection must be column 0 times cos plus column 1 times sin of the SAME angle element that indexes the store; found {show(z)[:200]}")
            # every i visited
            cover = False
            counts = (("call", G("len"), (va,), ()), ("attr", va, "size"), ("sub", ("attr", va, "shape"), ("const", 0)))
            lp = cfg.enclosing_loops(st)
            if i[0] == "counter" and i[2] == ("const", 0) and i[3] == ("const", 1):
                if lp and isinstance(lp[-1], ast.While):
                    tt = b.term(lp[-1].test, lp[-1])
                    cover = tt in [CMP("<", i, c) for c in counts]
            elif i[0] == "idx" and i[2] == "range":
                cover = i[3] in [(c,) for c in counts] + [(("const", 0), c) for c in counts]
            elif i[0] == "idx" and i[2] == "enumerate" and lp and isinstance(lp[-1], ast.For):
                cover = b.term(lp[-1].iter, lp[-1]) == ("call", G("enumerate"), (va,), ())
            rep.check(cover, "C03.proj", f"{q}:all-directions", fn.where(st), "i runs over 0 .. len(angles)-1",
                      "every direction must get its radius: the index must run from 0 to len(angles)-1 in steps of one")
            ok = True
    if not ok:
        rep.fail("C03.proj", f"{q}:store", fn.where(), why)
    if sample_t is not None:
        want = {("attr", SELF, "sample"), ("call", ("attr", ("attr", SELF, "model"), "draw_sample"), (("attr", SELF, "n"),), ())}
        from vstat.terms import strip_conv as _sc
        raw_sample_t = sample_t
        sample_t = _sc(sample_t)        # np.asarray(sample): a DataFrame / list of rows is converted, the values are the sample's
        rep.check(raw_sample_t != sample_t and raw_sample_t[0] == "call", "C03.proj", f"{q}:sample:array-like", fn.where(), "the sample is converted to an array before it is unpacked",
                  "x, y = sample.T on the sample as supplied: the DataFrame returned by read_ec_benchmark_dataset (which fit and the plot functions accept) raises 'too many values to "
                  "unpack', a list of rows has no .T; unpack np.asarray(sample).T")
        rep.check(set(alts(sample_t)) <= want and ("attr", SELF, "sample") in alts(sample_t), "C03.proj", f"{q}:sample", fn.where(),
                  "x, y are the columns of the supplied / drawn sample", f"the projected points must be the supplied sample or the one drawn from the model; found {show(sample_t)[:120]}")
    # angular step and grid
    step_t = ("bin", "/", ("bin", "*", ("attr", SELF, "deg_step"), G("numpy.pi")), ("const", 180))
    ar_ = bind_arange(va)
    if ar_ is not None and not (len(va[2]) == 1 and not va[3]):
        start, stop, step = ar_["start"], ar_["stop"], ar_["step"]
        oks = algebra.same(step, step_t) or algebra.same(step, ("neg", step_t))
        rep.check(oks, "C03.step", f"{q}:step", fn.where(), "successive angles differ by deg_step*pi/180",
                  f"successive edge normals must advance by deg_step*pi/180; found step {show(step)[:100]}")
        floaty = any(s == G("numpy.pi") or (s[0] == "const" and isinstance(s[1], float)) for s in walk(step))
        L = ("bin", "/", ("bin", "-", stop, start), step)
        integral = None
        for k in range(-3, 4):
            if algebra.equal_rat(L, ("bin", "+", ("bin", "/", ("const", 360), ("attr", SELF, "deg_step")), ("const", k))):
                integral = k
        if floaty and integral is not None:
            rep.fail("C03.grid", f"{q}:angles", fn.where(),
                     f"the direction grid is np.arange(start, stop, step) with a float step whose symbolic length (stop-start)/step = 360/deg_step{integral:+d} "
                     "is an INTEGER for every deg_step dividing 360: the half-open stop test sits exactly on its boundary, so the number of directions "
                     f"(360/deg_step{integral:+d} or one more) is decided by rounding (deg_step=10 gives a 0/0 last vertex, deg_step=6 a duplicated one)")
        else:
            rep.ok("C03.grid", f"{q}:angles", fn.where(), "direction count not on an arange boundary")
    elif va[0] == "call" and va[1] == G("numpy.linspace"):
        bd = bind(va)
        rep.check(bd is not None and "num" in bd, "C03.grid", f"{q}:angles", fn.where(), "direction grid enumerated by count (linspace num=)",
                  "np.linspace must be given the number of directions explicitly")
        rep.ok("C03.step", f"{q}:step", fn.where(), "linspace grid: step fixed by the count (not decided further)", nontrivial=False)
    elif va[0] == "bin":
        # start + k * step with k = np.arange(<int count>)
        ar = [s for s in walk(va) if s[0] == "call" and s[1] == G("numpy.arange")]
        by_count = bool(ar) and all(len(x[2]) == 1 and not any(y == G("numpy.pi") for y in walk(x)) for x in ar)
        rep.check(by_count, "C03.grid", f"{q}:angles", fn.where(), "direction grid enumerated by integer count",
                  f"the direction grid must be enumerated by an integer count; found {show(va)[:160]}")
        # angle(k+1) - angle(k), with the counter array replaced by 1 and by 0
        oks = False
        if len(ar) == 1:
            from vstat.terms import subst as _subst
            d_ = ("bin", "-", _subst(va, {ar[0]: ("const", 1)}), _subst(va, {ar[0]: ("const", 0)}))
            oks = algebra.same(d_, step_t) or algebra.same(d_, ("neg", step_t))
        rep.check(oks, "C03.step", f"{q}:step", fn.where(), "successive angles differ by deg_step*pi/180", "the angular increment must be deg_step*pi/180")
        # once around the circle: 360 / deg_step directions ...
        cnt = ar[0][2][0] if ar else None
        while cnt is not None and cnt[0] == "call" and cnt[1] in (G("int"), G("round"), G("numpy.round"), G("numpy.rint"), G("numpy.around")) and cnt[2]:
            cnt = cnt[2][0]
        full = ("bin", "/", ("const", 360), ("attr", SELF, "deg_step"))
        okn = cnt is not None and (algebra.same(cnt, full) or cnt == ("bin", "//", ("const", 360), ("attr", SELF, "deg_step")))
        rep.check(okn, "C03.grid", f"{q}:count", fn.where(), "360 / deg_step directions", f"the number of directions must be 360 / deg_step; found {show(cnt)[:80] if cnt else None}")
        # ... and one vertex per direction: every neighbouring pair of the closed series is intersected, the wrap-around pair included
        okp = pair is not None and pair[0] == (0, -1) and pair[1][0] == 1 and pair[1][1] in (None, 0)
        rep.check(okp, "C03.wrap", f"{q}:all-pairs", site, "pairs (k, k+1) for every k of the closed series",
                  f"with one direction per step the closed series has one element more than there are vertices: the lines must be paired as series[:-1] with "
                  f"series[1:]; found the slices {pair}")
    else:
        rep.fail("C03.grid", f"{q}:angles", fn.where(), f"unrecognised construction of the direction grid: {show(va)[:160]}")
