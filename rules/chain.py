"""The hierarchical chain rule (IDX): one store per column K that calls
``distributions[K].<sink>`` with the K-th own argument and, when conditional, the
column ``conditional_on[K]`` of the state matrix, under the None-test of
``conditional_on[K]``.  Used by C01 (icdf), C06 (pdf), C07 (draw_sample)."""
import ast

from vstat.loader import AnalysisError
from vstat.terms import top_alts, degrade, builder, show, SELF, NONE, G, alts, walk, mentions, phi, strip_none
from vstat.guards import path_conditions
from vstat.cfg import cfg_of
from vstat import algebra


def model_attr(owner, name):
    """self.<name> (owner == 'self') or self.model.<name>."""
    if owner == "self":
        return ("attr", SELF, name)
    return ("attr", ("attr", SELF, "model"), name)


class Store:
    def __init__(self, st, base, K, row, call, pc):
        self.st, self.base, self.K, self.row, self.call, self.pc = st, base, K, row, call, pc


def column_stores(prog, fn, b, sink):
    """All ``T[:, K] = R.sink(...)`` / ``T[j, K] = R.sink(...)`` stores of fn."""
    pcs = path_conditions(prog, fn, b)
    out = []
    for st in cfg_of(fn).all_stmts():
        if not (isinstance(st, ast.Assign) and len(st.targets) == 1 and isinstance(st.targets[0], ast.Subscript)):
            continue
        tg = st.targets[0]
        tb = strip_none(b.term(tg.value, st))
        idx = b.index(tg.slice, st, {})
        K = row = None
        if idx[0] == "tuple" and len(idx[1]) == 2:
            a, k = idx[1]
            if a == ("slice", NONE, NONE, NONE):
                K = k
            elif a[0] != "slice":
                K, row = k, a
        if K is None:
            continue
        # one store may choose between a conditional and an unconditional call (conditional expression, conditional **kwargs):
        # the alternatives and their guards come from a guarded builder; the calls themselves are compared in plain form
        val = b.term(st.value, st)
        if val[0] == "call":
            choices = [((), val)]
        else:
            bg = builder(prog, fn, b.self_cls, guarded=True)
            choices = [(lits, degrade(v)) for lits, v in top_alts(bg.term(st.value, st))]
        for lits, val in choices:
            if val[0] == "call" and val[1][0] == "attr" and val[1][2] == sink:
                out.append(Store(st, tb, K, row, val, tuple(pcs.of(st)) + tuple(lits)))
    return out


def k_range(K):
    """('const', c) -> (c, c+1) ; range loop var -> (start, stop) terms."""
    if K[0] == "const" and isinstance(K[1], int):
        return ("const", K[1]), ("const", K[1] + 1)
    if K[0] == "idx" and K[2] == "range":
        a = K[3]
        if len(a) == 1:
            return ("const", 0), a[0]
        if len(a) == 2:
            return a[0], a[1]
    return None


def coverage_ok(stores, n_dim_terms):
    """The K of the stores cover 0 .. n_dim-1 (as {0} u range(1, n) or range(n))."""
    segs = []
    for s in stores:
        r = k_range(s.K)
        if r is None:
            return False, f"column index {show(s.K)} is neither a constant nor a range loop variable"
        segs.append(r)
    # greedy cover from 0
    cur = ("const", 0)
    changed = True
    reached = False
    for _ in range(len(segs) + 1):
        for lo, hi in segs:
            if lo == cur or (lo[0] == "const" and cur[0] == "const" and lo[1] <= cur[1]):
                if hi in n_dim_terms:
                    return True, ""
                if hi[0] == "const" and cur[0] == "const" and hi[1] > cur[1]:
                    cur = hi
    return False, f"columns covered from 0 up to {show(cur)} only; no store reaches n_dim"


def check_chain(prog, rep, rule, fn, sink, owner, *, own_arg, given_matrix, label, self_cls=None,
                n_dim_terms=None, given_kw="given", given_pos=None, extra=None):
    """own_arg(store, argterm) -> (ok, expected-description); given_matrix(store) -> term of the matrix
    whose column conditional_on[K] must be passed as given."""
    b = builder(prog, fn, self_cls)
    rep.analysed(fn)
    DISTS = model_attr(owner, "distributions")
    COND = model_attr(owner, "conditional_on")
    stores = column_stores(prog, fn, b, sink)
    stores = [s for s in stores if strip_none(s.call[1][1])[0] == "sub" and strip_none(s.call[1][1])[1] in (DISTS,)
              or True]
    q = fn.qualname
    if not stores:
        raise AnalysisError(f"{q}: no column store calling .{sink} found")
    good = []
    for s in stores:
        site = fn.where(s.st)
        recv = strip_none(s.call[1][1])
        tag = "cond" if (given_kw in dict(s.call[3]) or (given_pos is not None and len(s.call[2]) > given_pos)) else "marg"
        inst = f"{q}:{label}[{show(s.K) if s.K[0] == 'const' else 'i'}{',row' if s.row is not None else ''}]:{tag}"
        if recv[0] != "sub" or recv[1] != DISTS:
            if recv[0] == "sub":
                rep.fail(rule, inst + ":dist", site, f"receiver of .{sink} must be {show(DISTS)}[K], found {show(recv)[:80]}")
            continue  # not a distribution call of the chain (e.g. model.marginal_icdf)
        problems = []
        if recv[2] != s.K:
            problems.append(f"column {show(s.K)} is filled by distribution {show(recv[2])} (index disagreement)")
        args = s.call[2]
        kw = dict(s.call[3])
        ok, exp = own_arg(s, args[0] if args else None)
        if not ok:
            problems.append(f"own argument must be {exp}, found {show(args[0])[:90] if args else None}")
        given = kw.get(given_kw)
        if given is None and given_pos is not None and len(args) > given_pos:
            given = args[given_pos]
        ck = ("sub", COND, s.K)
        if given is not None:
            gm = given_matrix(s)
            want = ("col", gm, ck)
            if s.row is not None:
                want = ("sub", want, s.row)
            if given != want:
                problems.append(f"given must be column conditional_on[K] of the matrix being filled / evaluated, row-aligned: {show(want)[:100]}; found {show(given)[:100]}")
            if ("not", ("isnone", ck)) not in s.pc:
                problems.append("conditional call is not on the 'conditional_on[K] is not None' branch of the same K")
        else:
            if ("isnone", ck) not in s.pc and not (s.K == ("const", 0)):
                problems.append("unconditional call is not on the 'conditional_on[K] is None' branch of the same K")
        if extra is not None:
            problems += extra(s, args, kw, given is not None)
        if problems:
            rep.fail(rule, inst, site, "; ".join(problems))
        else:
            rep.ok(rule, inst, site, f"{show(s.base)[:30]}[.., K] = distributions[K].{sink}(own K" + (", given=col conditional_on[K])" if given is not None else ")"))
            good.append(s)
    chain_stores = [s for s in stores if strip_none(s.call[1][1])[0] == "sub" and strip_none(s.call[1][1])[1] == DISTS]
    nd = n_dim_terms or {model_attr(owner, "n_dim")}
    ok, why = coverage_ok(chain_stores, nd)
    rep.check(ok, rule, f"{q}:{label}:coverage", fn.where(), "columns 0 .. n_dim-1 all filled, in increasing order", why)
    # both a conditional and an unconditional store must exist for the loop variable
    loopK = [s for s in chain_stores if s.K[0] == "idx"]
    has_c = any((given_kw in dict(s.call[3])) or (given_pos is not None and len(s.call[2]) > given_pos) for s in loopK)
    has_m = any(not ((given_kw in dict(s.call[3])) or (given_pos is not None and len(s.call[2]) > given_pos)) for s in loopK)
    rep.check(has_c and has_m, rule, f"{q}:{label}:branches", fn.where(), "loop has a conditional and an unconditional store",
              f"the per-dimension loop must have both a conditional (given=...) and an unconditional store; conditional={has_c} unconditional={has_m}")
    return chain_stores
