"""C19 - evaluation is pure and repeatable; predefined models share no state (effect analysis)."""
import ast
import os

from vstat.loader import AnalysisError, Program
from vstat.terms import builder, show, SELF, NONE, G, alts, walk, mentions, phi
from vstat.cfg import cfg_of
from vstat.effects import Effects
from . import c09
from .distfam import families

P = lambda n: ("param", n)
HERE = os.path.dirname(os.path.dirname(os.path.abspath(__file__)))
EXPL = ("Effect summaries (alias classes Fresh / alias-of-parameter / alias-of-self.attr / module-global with a numpy copy/view table; mutation sites = "
        "subscript and attribute stores, in-place operators on non-fresh arrays, del, mutating methods, out=, np.put/place/copyto, setattr) for every "
        "function, propagated over the name-based class-hierarchy call graph to a fixpoint. C19.noargmut: no public evaluation entry point mutates a "
        "parameter object or a view of one; C19.nomodelwrite: evaluation methods of models, distributions, slicers and dependence functions write no "
        "attribute of their object (allow-list by name), contour computations write only their own attributes and never the model's; C19.template: the "
        "per-interval fit receiver is copy.deepcopy(template); C19.getters: everything reachable from the tuple returned by the six predefined getters is "
        "allocated inside the call, no module-level mutable object, no mutable default, no memoising decorator; C19.globals: no function assigns or mutates "
        "module- or class-level mutable state; C19.control: the detector reports every impure function of a fixture module and stays silent on its pure one. "
        "C19.args: package-wide sweep (rules/argmut.py) - no public function stores into, deletes from or calls a mutating method on a parameter whose entry value "
        "still reaches that statement (reaching definitions), directly or through private helpers it hands the parameter to; a built-in positive example must be reported on every run.")
ASSUME = ["numpy copy/view semantics as tabulated in vstat/effects.py", "external (numpy/scipy/matplotlib/pandas/sklearn/networkx) callables do not mutate their array arguments except the tabulated mutators",
          "bitwise repeatability beyond absence of hidden state is not decided"]

# evaluation methods that must not write their own object
MODEL_EVAL = {
    "virocon.distributions.ConditionalDistribution": ["pdf", "cdf", "icdf", "draw_sample", "_get_param_values"],
    "virocon.jointmodels.MultivariateModel": ["cdf", "marginal_icdf", "conditional_cdf", "conditional_icdf", "conditional_sample"],
    "virocon.jointmodels.GlobalHierarchicalModel": ["pdf", "marginal_pdf", "marginal_cdf", "marginal_icdf", "conditional_cdf", "conditional_icdf", "draw_sample"],
    "virocon.jointmodels.TransformedModel": ["pdf", "cdf", "empirical_cdf", "draw_sample"],
    "virocon.dependencies.DependenceFunction": ["__call__"],
    "virocon.intervals.IntervalSlicer": ["slice_", "_drop_too_small_intervals"],
    "virocon.intervals.WidthOfIntervalSlicer": ["_slice"],
    "virocon.intervals.NumberOfIntervalsSlicer": ["_slice"],
    "virocon.intervals.PointsPerIntervalSlicer": ["_slice"],
}
ALLOW_SELF_WRITE = {
    ("virocon.jointmodels.TransformedModel.empirical_cdf", "_sample"): "memo of an unseeded sample, read only by empirical_cdf",
    ("virocon.jointmodels.TransformedModel.sample", "_sample"): "memo of an unseeded sample, read only by empirical_cdf",
}
CONTOURS = ["IFORMContour", "ISORMContour", "HighestDensityContour", "DirectSamplingContour", "AndContour", "OrContour"]
FREE_ENTRY = ["virocon.utils.calculate_design_conditions", "virocon.utils.sort_points_to_form_continuous_line", "virocon._intersection.intersection",
              "virocon.contours.save_contour_coordinates", "virocon.contours.calculate_alpha",
              "virocon.plotting.plot_marginal_quantiles", "virocon.plotting.plot_dependence_functions",
              "virocon.plotting.plot_histograms_of_interval_distributions", "virocon.plotting.plot_2D_isodensity", "virocon.plotting.plot_2D_contour",
              "virocon.variable_transform.hs_tz_to_s_d", "virocon.variable_transform.s_d_to_hs_tz", "virocon.variable_transform.hs_tz_to_hs_s",
              "virocon.variable_transform.hs_s_to_hs_tz", "virocon.variable_transform.hs_tz_to_s_tz", "virocon.variable_transform.s_tz_to_hs_tz"]
GETTERS = ["get_DNVGL_Hs_Tz", "get_DNVGL_Hs_U", "get_OMAE2020_Hs_Tz", "get_OMAE2020_V_Hs", "get_Windmeier_EW_Hs_S", "get_Nonzero_EW_Hs_S"]


def _seeded(prog, rep):
    # "seeded sampling ... repeating a deterministic evaluation returns identical results": every random number comes from
    # np.random.default_rng(random_state) of the caller's own random_state, unchanged (the rows of C07.rng and C16.rng)
    from vstat.report import Relabel
    from . import c07, c16
    sub = Relabel(rep, "C19.seed", lambda r, inst: r in ("C07.rng", "C07.noseed") or (r == "C16.rng" and ("conditional_sample" in inst or "TransformedModel.sample" in inst)))
    rep.part(c07.rng, prog, sub)
    rep.part(c07.noseed, prog, sub)
    rep.part(c16.rng, prog, sub)
    rep.expect_min("C19.seed", 16)
    rep.explanation += (" C19.seed: the rows of C07.rng / C16.rng - every draw comes from np.random.default_rng(random_state) with the caller's "
                        "random_state passed on unchanged, so the same seed repeats the same numbers (seed 0 included).")


def _repeatable(prog, rep):
    """'every contour class with a supplied sample ... repeating a deterministic evaluation returns identical results': a contour
    computed from a SUPPLIED sample (and a grid contour) must not draw random numbers it cannot seed.  marginal_icdf of a
    conditional variable is a quantile of self.draw_sample(n) without a random_state."""
    from vstat.terms import builder as _b
    from vstat.guards import path_conditions as _pcs
    JM_ = "virocon.jointmodels"
    # does some marginal_icdf implementation of the package draw without a seed?
    unseeded = []      # marginal_icdf implementations that draw and cannot be seeded at all
    seedable = []      # ... that draw with the random_state they are given (None unless the caller passes one)
    for q, f in prog.functions.items():
        if f.name == "marginal_icdf" and f.cls is not None:
            for n_ in ast.walk(f.node):
                if isinstance(n_, ast.Call) and isinstance(n_.func, ast.Attribute) and n_.func.attr == "draw_sample":
                    (seedable if any(k.arg == "random_state" for k in n_.keywords) else unseeded).append((q, n_.lineno))
    sites = [("virocon.contours.AndContour._compute", True), ("virocon.contours.OrContour._compute", True), ("virocon.contours.HighestDensityContour._check_grid", False),
             ("virocon.plotting.plot_marginal_quantiles", False)]
    for q, has_sample in sites:
        fn = prog.func(q)
        rep.analysed(fn)
        b = _b(prog, fn, inline=False)
        pcs = _pcs(prog, fn, b)
        calls = []
        for st in cfg_of(fn).all_stmts():
            for n_ in (ast.walk(st) if isinstance(st, (ast.Assign, ast.Expr, ast.Return, ast.AugAssign)) else []):
                is_mi = isinstance(n_, ast.Call) and isinstance(n_.func, ast.Attribute) and n_.func.attr == "marginal_icdf"
                if isinstance(n_, ast.Call) and not is_mi:
                    tc = b.term(n_.func, st)   # the bound method kept in a local name
                    is_mi = tc[0] == "attr" and tc[2] == "marginal_icdf"
                if is_mi and not unseeded and any(k.arg == "random_state" and not (isinstance(k.value, ast.Constant) and k.value.value is None) for k in n_.keywords):
                    continue    # the caller hands a seed to a seedable marginal_icdf
                if is_mi:
                    lits = pcs.of(st)
                    only_without_sample = any(l == ("isnone", ("attr", SELF, "sample")) or l == ("isnone", ("param", "sample")) or (l[0] == "isnone" and "sample" in str(l)) for l in lits)
                    if not (has_sample and only_without_sample):
                        calls.append(st)
        if q.endswith("plot_marginal_quantiles") and not calls:
            # the call sits in a helper class defined inside the function (the object handed to scipy's probplot)
            for n_ in ast.walk(fn.node):
                if isinstance(n_, ast.Call) and isinstance(n_.func, ast.Attribute) and n_.func.attr == "marginal_icdf" \
                        and not any(k.arg == "random_state" and not (isinstance(k.value, ast.Constant) and k.value.value is None) for k in n_.keywords):
                    calls.append(n_)
        bad = bool(calls) and bool(unseeded or seedable)
        rep.check(not bad, "C19.repeat", f"{q}:marginal_icdf", fn.where(calls[0]) if calls else fn.where(),
                  "no unseeded Monte-Carlo quantile enters the computation",
                  f"{'with a supplied sample ' if has_sample else ''}the computation still calls model.marginal_icdf (line(s) {[c.lineno for c in calls]}), which for a conditional variable is a "
                  f"quantile of a Monte-Carlo sample ({(unseeded or seedable)[:2]}) for which no random_state is given here: two computations from the same inputs differ")
    rep.expect_min("C19.repeat", 4)


def _args_sweep(prog, rep):
    """package-wide complement of C19.noargmut (which follows aliases, for the evaluation entries only): no PUBLIC function stores into,
    or calls a mutating method on, a parameter it never re-binds (rules/argmut.py)"""
    from . import argmut
    if not argmut.self_test():
        raise AnalysisError("argmut: the built-in positive example is no longer reported")
    fns = [(q, f.node) for q, f in sorted(prog.functions.items()) if isinstance(f.node, ast.FunctionDef) and q.startswith("virocon.") and f.parent is None]
    from vstat.dataflow import rd_of
    by_node = {id(f.node): f for _q, f in prog.functions.items()}
    stmt_maps = {}

    def reaches(fnode, name, node):
        """does the parameter's entry value reach the statement this node belongs to? (reaching definitions)"""
        f = by_node[id(fnode)]
        if id(fnode) not in stmt_maps:
            m = {}
            stmts = list(cfg_of(f).all_stmts())
            for st in sorted(stmts, key=lambda s_: -sum(1 for _ in ast.walk(s_))):
                for n_ in ast.walk(st):
                    m[id(n_)] = st          # the innermost statement wins (visited last)
            stmt_maps[id(fnode)] = m
        st = stmt_maps[id(fnode)].get(id(node))
        if st is None:
            return True
        try:
            return any(d.kind == "param" for d in rd_of(f).reaching(name, st))
        except Exception:
            return True
    reports, pairs = argmut.scan(fns, reaches)
    if pairs < 150:
        raise AnalysisError(f"argmut: only {pairs} (function, parameter) pairs found in the package (anchor: at least 150)")
    seen = set()
    for q, p_, ln, text in reports:
        if (q, p_) in seen:
            continue
        seen.add((q, p_))
        fn = prog.func(q)
        rep.fail("C19.args", f"{q}:{p_}", f"{fn.file}:{ln}", f"the caller's argument '{p_}' is changed in place: {text} - the caller's object is different after the call "
                 "(a tuple or a read-only array raises instead)")
    rep.ok("C19.args", "virocon:sweep", "virocon/", f"{pairs} (public function, never re-bound parameter) pairs examined, {len(seen)} changed in place")


def run(prog, rep):
    rep.part(_args_sweep, prog, rep)
    rep.expect_min("C19.args", 1)
    rep.part(_repeatable, prog, rep)
    rep.explanation = EXPL
    rep.assumptions = ASSUME
    rep.part(_seeded, prog, rep)
    eff = Effects(prog)
    rep.extra["C19.functions_summarised"] = len(eff.summ)
    rep.extra["C19.fixpoint_rounds"] = eff.rounds
    entries = []
    for fam in families(prog, include_generic=True):
        for m in ("cdf", "icdf", "pdf", "draw_sample", "_get_scipy_parameters"):
            entries.append((fam.m[m], True))
    for cq, ms in MODEL_EVAL.items():
        ci = prog.cls(cq)
        for m in ms:
            f = prog.lookup_method(ci, m)
            if f is None or f.cls is not ci:
                if f is None:
                    raise AnalysisError(f"{cq}.{m} not found")
                continue
            entries.append((f, True))
    for c in CONTOURS:
        ci = prog.cls(f"virocon.contours.{c}")
        for m in ci.methods.values():
            entries.append((m, False))
    for q in FREE_ENTRY:
        entries.append((prog.func(q), False))
    seen = set()
    for fn, is_model in entries:
        if fn.qualname in seen:
            continue
        seen.add(fn.qualname)
        rep.analysed(fn)
        s = eff.summ[fn.qualname]
        site = fn.where()
        pm = sorted(r for r in s["mut"] if r[0] == "param")
        if pm:
            for r in pm:
                ln, what = s["why"].get(r, (fn.node.lineno, ""))
                rep.fail("C19.noargmut", f"{fn.qualname}:{r[1]}", f"{fn.file}:{ln}",
                         f"may mutate the caller's argument '{r[1]}' (or a view of it): {what}")
        else:
            rep.ok("C19.noargmut", fn.qualname, site, f"no parameter of {fn.name} is mutated (transitively)")
        gm = sorted(r for r in s["mut"] if r[0] == "global")
        for r in gm:
            ln, what = s["why"].get(r, (fn.node.lineno, ""))
            rep.fail("C19.globals", f"{fn.qualname}:{r[1]}", f"{fn.file}:{ln}", f"mutates module-level state {r[1]}: {what}")
        if is_model:
            from .purity import allowed as _memo_ok
            writes = sorted(a for a in s["selfw"] if (fn.qualname, a) not in ALLOW_SELF_WRITE and not _memo_ok(prog, fn.qualname, a))
            deep = sorted(r[1] for r in s["mut"] if r[0] == "selfattr" and (fn.qualname, r[1]) not in ALLOW_SELF_WRITE and not _memo_ok(prog, fn.qualname, r[1]))
            if writes or deep:
                for a in writes:
                    rep.fail("C19.nomodelwrite", f"{fn.qualname}:self.{a}", site, f"evaluation writes attribute self.{a} of the model / distribution object")
                for a in deep:
                    ln, what = s["why"].get(("selfattr", a), (fn.node.lineno, ""))
                    rep.fail("C19.nomodelwrite", f"{fn.qualname}:self.{a}[...]", f"{fn.file}:{ln}", f"evaluation mutates the object held in self.{a}: {what}")
            else:
                rep.ok("C19.nomodelwrite", fn.qualname, site, "writes no attribute of its object")
        else:
            if fn.cls is not None:
                held = _ctor_aliases(prog, fn.cls)
                deep = sorted(r[1] for r in s["mut"] if r[0] == "selfattr" and r[1] in held)
                if deep:
                    for a in deep:
                        ln, what = s["why"].get(("selfattr", a), (fn.node.lineno, ""))
                        rep.fail("C19.nomodelwrite", f"{fn.qualname}:self.{a}", f"{fn.file}:{ln}",
                                 f"the contour computation mutates the caller's object held in self.{a} (constructor argument '{held[a]}'): {what}")
                else:
                    rep.ok("C19.nomodelwrite", fn.qualname, site, "contour code writes only the contour's own attributes, never the objects it was given")
    rep.extra["C19.entry_points"] = len(seen)
    # template
    sub = _Only(rep, ":per-interval", "C19.template")
    rep.part(c09.intervals, prog, sub)
    rep.part(getters, prog, rep)
    rep.part(globals_rule, prog, rep, eff)
    control(rep)
    rep.expect_min("C19.noargmut", 90)
    rep.expect_min("C19.nomodelwrite", 60)
    rep.expect_min("C19.template", 1)
    rep.expect_min("C19.getters", 6)
    rep.expect_min("C19.globals", 1)
    rep.expect_min("C19.control", 9)


_held_cache = {}


def _ctor_aliases(prog, ci):
    """{attr: constructor parameter} for attributes that alias a constructor argument (self.a = a)."""
    if ci.qualname in _held_cache:
        return _held_cache[ci.qualname]
    out = {}
    for c in ci.mro:
        init = c.methods.get("__init__")
        if init is None:
            continue
        b = builder(prog, init, inline=False)
        for st in cfg_of(init).all_stmts():
            if isinstance(st, ast.Assign) and isinstance(st.targets[0], ast.Attribute) and isinstance(st.targets[0].value, ast.Name) and st.targets[0].value.id == "self":
                t = b.term(st.value, st)
                for a in alts(t):
                    if a[0] == "param":
                        out[st.targets[0].attr] = a[1]
    _held_cache[ci.qualname] = out
    return out


class _Only:
    def __init__(self, rep, suffix, rule):
        self.rep, self.suffix, self.rule = rep, suffix, rule

    def check(self, cond, rule, inst, *a, **k):
        if inst.endswith(self.suffix):
            return self.rep.check(cond, self.rule, inst, *a, **k)
        return cond

    def ok(self, *a, **k):
        pass

    def fail(self, *a, **k):
        pass

    def __getattr__(self, n):
        return getattr(self.rep, n)


# ------------------------------------------------------------------ getters
def _fresh(t, prog, fn, problems, depth=0):
    """Every object reachable from term t is allocated inside the call of fn."""
    k = t[0]
    if depth > 40:
        problems.append("term too deep")
        return
    if k in ("const",):
        return
    if k == "func":
        if not t[1].startswith(fn.qualname + "."):
            problems.append(f"function {t[1]} is not defined inside the getter (shared between calls)") if not t[1].startswith("virocon.") else None
        return
    if k in ("tuple", "list", "set", "cols"):
        for a in t[1]:
            _fresh(a, prog, fn, problems, depth + 1)
        return
    if k == "dict":
        for kk, v in t[1]:
            _fresh(v, prog, fn, problems, depth + 1)
        return
    if k == "call":
        f = t[1]
        if f[0] == "global" and (f[1] in prog.classes):
            for a in t[2]:
                _fresh(a, prog, fn, problems, depth + 1)
            for _, v in t[3]:
                _fresh(v, prog, fn, problems, depth + 1)
            return
        problems.append(f"value produced by a call that is not a constructor: {show(t)[:80]}")
        return
    if k == "global":
        d = t[1]
        if d in prog.classes or d in prog.functions:
            return
        problems.append(f"module-level object {d} is reachable from the returned description: it is shared by every call of the getter")
        return
    if k in ("phi", "gphi"):
        for a in (t[1] if k == "phi" else [x[1] for x in t[1]]):
            _fresh(a, prog, fn, problems, depth + 1)
        return
    if k == "param":
        problems.append(f"parameter {t[1]} is returned")
        return
    problems.append(f"cannot show that {show(t)[:80]} is allocated inside the call")


def getters(prog, rep):
    for g in GETTERS:
        q = f"virocon.predefined.{g}"
        fn = prog.func(q)
        rep.analysed(fn)
        b = builder(prog, fn, inline=False)
        rets = [s for s in cfg_of(fn).all_stmts() if isinstance(s, ast.Return)]
        problems = []
        if len(rets) != 1:
            problems.append("expected exactly one return")
        else:
            _fresh(b.term(rets[0].value, rets[0]), prog, fn, problems)
        if fn.decorators:
            problems.append(f"decorated with {fn.decorators}: results may be memoised and shared")
        for name, d in fn.defaults().items():
            if not isinstance(d, ast.Constant):
                problems.append(f"mutable default argument {name}")
        for sub in fn.children.values():
            for name, d in sub.defaults().items():
                if not isinstance(d, ast.Constant) and not (isinstance(d, ast.UnaryOp) and isinstance(d.operand, ast.Constant)):
                    problems.append(f"nested function {sub.name} has a mutable default {name}")
        rep.check(not problems, "C19.getters", q, fn.where(), "everything reachable from the returned tuple is allocated inside the call",
                  "objects returned by separate calls must share no mutable state: " + "; ".join(dict.fromkeys(problems)))


# ------------------------------------------------------------------ globals
def globals_rule(prog, rep, eff):
    bad = []
    n = 0
    for q, fn in sorted(prog.functions.items()):
        if isinstance(fn.node, ast.Lambda):
            continue
        n += 1
        decl = set()
        for node in ast.walk(fn.node):
            if isinstance(node, ast.Global):
                decl |= set(node.names)
        if decl:
            for node in ast.walk(fn.node):
                tg = []
                if isinstance(node, ast.Assign):
                    tg = node.targets
                elif isinstance(node, (ast.AugAssign, ast.AnnAssign)):
                    tg = [node.target]
                for t in tg:
                    for nm in ast.walk(t):
                        if isinstance(nm, ast.Name) and nm.id in decl and isinstance(nm.ctx, ast.Store):
                            bad.append((q, node.lineno, f"assigns the module-level name {nm.id}"))
        memo = [d for d in fn.decorators if "lru_cache" in d or d.endswith("cache") or "cached_property" in d]
        if memo:
            bad.append((q, fn.node.lineno, f"is memoised ({memo[0]}): every caller receives the same object, so state leaks between models / contours"))
        s = eff.summ.get(q)
        if s:
            for r in s["mut"]:
                if r[0] == "global":
                    bad.append((q, s["why"].get(r, (fn.node.lineno, ""))[0], f"mutates module-level object {r[1]}"))
        # class-level mutable attributes mutated through self / the class
        if fn.cls is not None:
            b = builder(prog, fn, inline=False)
            cattrs = set()
            for c in fn.cls.mro:
                for a, v in c.class_attrs.items():
                    if isinstance(v, (ast.List, ast.Dict, ast.Set, ast.Call)):
                        cattrs.add(a)
            if s:
                for r in s["mut"]:
                    if r[0] == "selfattr" and r[1] in cattrs and not _instance_assigned(prog, fn.cls, r[1]):
                        bad.append((q, s["why"].get(r, (fn.node.lineno, ""))[0], f"mutates the class-level attribute {r[1]} shared by all instances"))
            for node in ast.walk(fn.node):
                if isinstance(node, (ast.Assign, ast.AugAssign)):
                    tgs = node.targets if isinstance(node, ast.Assign) else [node.target]
                    for t in tgs:
                        if isinstance(t, ast.Attribute):
                            base = ast.unparse(t.value)
                            if base in (fn.cls.name, "cls", "type(self)", "self.__class__"):
                                bad.append((q, node.lineno, f"assigns the class attribute {base}.{t.attr}"))
    # dedupe
    seen = set()
    for q, ln, what in bad:
        if (q, what) in seen:
            continue
        seen.add((q, what))
        rep.fail("C19.globals", f"{q}:{what}", f"{prog.functions[q].file}:{ln}", f"hidden shared state: {what}")
    if not bad:
        rep.ok("C19.globals", "package", "virocon/*.py", f"{n} functions: none assigns or mutates module- or class-level mutable state")


def _instance_assigned(prog, ci, attr):
    for c in ci.mro:
        init = c.methods.get("__init__")
        if init is not None:
            for node in ast.walk(init.node):
                if isinstance(node, ast.Attribute) and isinstance(node.ctx, ast.Store) and node.attr == attr and isinstance(node.value, ast.Name) and node.value.id == "self":
                    return True
    return False


# ------------------------------------------------------------------ control
def control(rep):
    root = os.path.join(HERE, "selftest", "fixtures", "effects")
    fx = Program(root, min_modules=1)
    eff = Effects(fx)
    want = {
        "virocon.impure.scale_in_place": ("param", "x"),
        "virocon.impure.store_through_view": ("param", "data"),
        "virocon.impure.sort_argument": ("param", "points"),
        "virocon.impure.through_callee": ("param", "sample"),
        "virocon.impure.write_global": ("global", "virocon.impure.SHARED"),
    }
    for q, root_ in want.items():
        got = eff.summ[q]["mut"]
        rep.check(root_ in got, "C19.control", q, "selftest/fixtures/effects/virocon/impure.py", f"positive control: {root_} reported",
                  f"positive control failed: the effect analysis does not report {root_} for {q} (found {sorted(got)}): the detector is blind")
    rep.check("scale" in eff.summ["virocon.impure.Model.pdf"]["selfw"], "C19.control", "virocon.impure.Model.pdf", "fixture", "positive control: self.scale write reported",
              "positive control failed: attribute write in an evaluation method not reported")
    rep.check(("selfattr", "cache") in eff.summ["virocon.impure.Model.cdf"]["mut"], "C19.control", "virocon.impure.Model.cdf", "fixture", "positive control: store into self.cache reported",
              "positive control failed: store into an attribute's object not reported")
    rep.check(not eff.summ["virocon.impure.pure"]["mut"], "C19.control", "virocon.impure.pure", "fixture", "negative control: in-place work on a fresh copy is not reported",
              f"negative control failed: {sorted(eff.summ['virocon.impure.pure']['mut'])} reported for a function that only touches its own copy")
    g = [n for n in ast.walk(fx.func("virocon.impure.rebind_global").node) if isinstance(n, ast.Global)]
    rep.check(bool(g), "C19.control", "virocon.impure.rebind_global", "fixture", "positive control for the global-assignment scan present", "fixture lost")
