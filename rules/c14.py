"""C14 - dependence functions are fitted within bounds, optimally, in dependency order (wiring / typestate)."""
import ast
from fractions import Fraction

from vstat.loader import AnalysisError
from vstat.terms import top_alts, IT, builder, show, SELF, NONE, G, alts, walk, mentions, phi, subst
from vstat.guards import path_conditions, exception_name
from vstat.cfg import cfg_of, EXIT
from vstat.sigs import bind
from vstat import algebra
from . import c09
from .kwdict import local_dict_stores, star_star_name

DF = "virocon.dependencies.DependenceFunction"
FT = "virocon._fitting"
P = lambda n: ("param", n)
EXPL = ("C14.bounds: declared bounds reach curve_fit(bounds=) in both the lsq and the wlsq branch whenever they are not None (truth table over "
        "method x bounds), through a conversion mapping a missing lower bound to -inf and a missing upper bound to +inf in (lower, upper) order, and "
        "reach minimize(bounds=) on the constrained path; C14.constraints: every constraint-carrying formal of fit_constrained_function reaches the "
        "optimiser call (parameter liveness); C14.start: p0 is the tuple of current parameter values, the fitted function is self, the result is "
        "zipped back onto the same keys in order, least-squares error = sum((func(x, *p) - y)^2); C14.protocol: a function with "
        "dependence-function parameters starts with _may_fit False and registers itself; fit records (x, y) before testing _may_fit; every normal "
        "exit of _fit after the parameter update passes dependent.callback(self) for every registered dependent; callback enables fitting and "
        "re-enters fit with the recorded data - so the last fit of a dependent follows the last fit of each conditioner in any call order; "
        "C14.all: ConditionalDistribution.fit fits every dependence function.")
ASSUME = ["optimality of scipy curve_fit / SLSQP is not decided", "whether a premature fit against a not-yet-fitted conditioner can raise is value dependent"]


def run(prog, rep):
    rep.explanation = EXPL
    rep.assumptions = ASSUME
    rep.part(bounds, prog, rep)
    rep.part(constrained, prog, rep)
    rep.part(start_result, prog, rep)
    rep.part(protocol, prog, rep)
    sub = _R(rep)
    rep.part(c09.intervals, prog, sub)
    rep.expect_min("C14.bounds", 10)
    rep.expect_min("C14.constraints", 3)
    rep.expect_min("C14.start", 4)
    rep.expect_min("C14.protocol", 7)
    rep.expect_min("C14.all", 1)
    # "fitting it after all of those have been fitted ... also when a model is re-fitted": a dependent is fitted against what its
    # conditioners evaluate to NOW - the evaluation rows of C08.chain (stored values, in order, no arguments) and no memory in __call__
    from vstat.report import Relabel
    from . import c08
    rep.part(c08.chain, prog, Relabel(rep, "C14.eval"))
    rep.expect_min("C14.eval", 6)
    from .purity import row as _stateless_row
    rep.part(_stateless_row, prog, rep, "C14", 1)
    rep.explanation += (" C14.eval: the rows of C08.chain - a dependence function used as parameter is bound under its own name, removed from the fitted "
                        "parameters and evaluated with the currently stored values of its conditioner.")


class _R:
    def __init__(self, rep):
        self.rep = rep

    def check(self, cond, rule, inst, *a, **k):
        if inst.endswith(":dependence"):
            return self.rep.check(cond, "C14.all", inst, *a, **k)
        return cond

    def ok(self, *a, **k):
        pass

    def fail(self, *a, **k):
        pass

    def __getattr__(self, n):
        return getattr(self.rep, n)


def _calls(fn, b, callee):
    out = []
    for st in cfg_of(fn).all_stmts():
        exprs = [st] if isinstance(st, (ast.Assign, ast.Expr, ast.Return)) else []
        for e in exprs:
            for n in ast.walk(e):
                if isinstance(n, ast.Call):
                    t = b.term(n, st)
                    if t[0] == "call" and t[1] == callee:
                        out.append((st, t))
    return out


def _ev(lit, method, has_bounds):
    if lit[0] == "not":
        v = _ev(lit[1], method, has_bounds)
        return None if v is None else not v
    if lit == ("isnone", P("bounds")):
        return not has_bounds
    if lit[0] == "cmp" and lit[1] == "==" and lit[2] == P("method") and lit[3][0] == "const":
        return method == lit[3][1]
    if lit[0] == "isnone" and lit[1][0] in ("phi",):
        # bounds after conversion: None iff it was None
        return not has_bounds
    if lit[0] == "isnone" and mentions(lit[1], P("bounds")):
        return not has_bounds
    if lit[0] in ("and", "or"):
        vs = [_ev(x, method, has_bounds) for x in lit[1]]
        if lit[0] == "and":
            return False if any(v is False for v in vs) else None if any(v is None for v in vs) else True
        return True if any(v is True for v in vs) else None if any(v is None for v in vs) else False
    return None


def _expand_kwargs(fn, b, pcs, st, t, method, hb):
    """The call term with a ** local dict replaced by the entries that are set under this (method, bounds) case."""
    if not any(k == "**" for k, _ in t[3]):
        return t
    node = next((n for n in ast.walk(st) if isinstance(n, ast.Call) and b.term(n, st) == t), None)
    name = star_star_name(node) if node is not None else None
    if name is None:
        return ("unknown", "** argument not resolved")
    cfg = cfg_of(fn)
    kws = {k: v for k, v in t[3] if k != "**"}
    inits = [cfg.node(x) for x in cfg.all_stmts() if isinstance(x, ast.Assign) and any(isinstance(g, ast.Name) and g.id == name for g in x.targets)]
    from vstat.cfg import ENTRY
    if not inits or cfg.reachable_avoiding(ENTRY, {cfg.node(st)}, inits):
        return ("unknown", "keyword dict not initialised on every path to the call")
    for key, val, pc, s2 in local_dict_stores(fn, b, pcs, name):
        if cfg.enclosing_loops(s2):
            return ("unknown", "keyword dict filled in a loop")
        vals = [_ev(l, method, hb) for l in pc]
        if any(v is False for v in vals):
            continue
        if any(v is None for v in vals):
            return ("unknown", f"keyword '{key}' set under an undecided condition")
        kws[key] = val
    return ("call", t[1], t[2], tuple(sorted(kws.items())))


def bounds(prog, rep):
    q = f"{FT}.fit_function"
    fn = prog.func(q)
    rep.analysed(fn)
    b = builder(prog, fn, inline=False)
    pcs = path_conditions(prog, fn, b)
    cf = _calls(fn, b, G("scipy.optimize.curve_fit"))
    raises = [st for st in cfg_of(fn).all_stmts() if isinstance(st, ast.Raise)]
    conv = ("call", ("func", f"{FT}.convert_bounds_for_curve_fit"), (P("bounds"),), ())
    for method in ("lsq", "wlsq", "other"):
        for hb in (False, True):
            inst = f"{q}:{method}:{'bounds' if hb else 'no-bounds'}"
            reach = []
            for st, t in cf:
                vals = [_ev(l, method, hb) for l in pcs.of(st)]
                if all(v is True for v in vals):
                    reach.append((st, _expand_kwargs(fn, b, pcs, st, t, method, hb)))
                elif all(v is not False for v in vals):
                    reach.append((st, ("unknown", "undecided path condition")))
            rr = [exception_name(st, b) for st in raises if all(_ev(l, method, hb) is True for l in pcs.of(st))]
            if method == "other":
                rep.check(rr == ["ValueError"] and not reach, "C14.bounds", inst, fn.where(), "unknown method -> ValueError",
                          f"an unknown method must raise ValueError; reaches {rr} and {len(reach)} curve_fit call(s)")
                continue
            if len(reach) != 1 or reach[0][1][0] != "call":
                rep.fail("C14.bounds", inst, fn.where(), f"expected exactly one curve_fit call for method={method}, bounds {'given' if hb else 'None'}; found {len(reach)}")
                continue
            st, t = reach[0]
            bd = bind(t)
            probs = []
            if bd is None:
                probs.append("cannot bind curve_fit arguments")
            else:
                clip = ("call", G("numpy.clip"), (P("p0"), ("sub", conv, ("const", 0)), ("sub", conv, ("const", 1))), ())
                p0s = set(alts(bd.get("p0", NONE)))
                if (bd.get("f"), bd.get("xdata"), bd.get("ydata")) != (P("func"), P("x"), P("y")) or not p0s <= {P("p0"), clip} or not p0s:
                    probs.append("curve_fit must receive (func, x, y, p0) in this order (p0 as given, or clipped into the converted bounds)")
                if hb:
                    # the start values come from the function's signature (1 where it has no default): outside the declared bounds
                    # curve_fit refuses them ("x0 is infeasible") although the least-squares solution lies inside
                    rep.check(clip in p0s, "C14.bounds", inst + ":start-feasible", fn.where(st), "p0 is clipped into the converted bounds",
                              "with bounds the start values must be brought inside them (np.clip(p0, lower, upper)): the default start 1 outside a declared bound "
                              "makes curve_fit raise ValueError 'x0 is infeasible' (bounds [(2, None), (None, None)] on a linear function)")
                bt = bd.get("bounds")
                if hb:
                    if bt is None:
                        probs.append("declared bounds are NOT passed to curve_fit: the fit is unconstrained")
                    elif not ({conv, _repacked(conv, "list"), _repacked(conv, "tuple")} & set(alts(bt))) \
                            or any(a not in (conv, P("bounds"), _repacked(conv, "list"), _repacked(conv, "tuple")) for a in alts(bt)):
                        probs.append(f"bounds= must be convert_bounds_for_curve_fit(bounds), found {show(bt)[:80]}")
                elif bt is not None:
                    probs.append("bounds= passed although bounds is None")
                if method == "wlsq":
                    # curve_fit minimises sum((r_i / sigma_i) ** 2): a WEIGHT w_i on the squared residual is sigma_i = w_i ** -0.5.  Passing the weights
                    # themselves as sigma inverts and squares them (weights=lambda x, y: x ** 4 then nearly ignores the intervals it should favour)
                    from vstat.algebra import Mono, to_mono
                    sg = bd.get("sigma", NONE)
                    W = P("weights")
                    def as_w(t_):
                        return subst(t_, {("call", G("numpy.asarray"), (W,), kw_): W for kw_ in ((), (("dtype", G("float")),), (("dtype", G("numpy.float64")),))})
                    conv_w = [a for a in alts(sg) if a != W]
                    raw_w = [a for a in alts(sg) if a == W]
                    good_conv = bool(conv_w) and all((lambda m: m is not None and m == Mono(1, 1, {"w": Fraction(-1, 2)}))(to_mono(as_w(a), {W: "w"}, lambda n_: None)) for a in conv_w)
                    # the raw value may only be what is left where no weights were given (None): the conversion runs under 'weights is not None' alone
                    raw_ok = True
                    if raw_w:
                        cv = [s_ for s_ in cfg_of(fn).all_stmts() if isinstance(s_, ast.Assign) and isinstance(s_.targets[0], ast.Name) and s_.targets[0].id == "weights"]
                        pcs_w = path_conditions(prog, fn, b)
                        raw_ok = bool(cv) and all(list(pcs_w.of(s_)) == [("not", ("isnone", W))] for s_ in cv)
                    if sg == W:
                        probs.append("the weights are passed to curve_fit as sigma: curve_fit minimises sum((r_i / sigma_i) ** 2), so the weighting is INVERTED and SQUARED "
                                     "(mu = DependenceFunction(lin, weights=lambda x, y: x ** 4) over 8 intervals: a = 1.994, b = 0.309, the minimiser of sum((r / w) ** 2); the documented "
                                     "weighted least squares sum(w r ** 2) gives a = 2.197, b = 0.154); pass sigma = 1 / np.sqrt(weights)")
                    elif not (good_conv and raw_ok):
                        probs.append(f"weighted fit must pass sigma = weights ** -0.5 (a weight on the squared residual), found {show(sg)[:80]}")
                if method == "lsq" and "sigma" in bd:
                    probs.append("unweighted fit must not pass sigma")
                extra = set(bd) - {"f", "xdata", "ydata", "p0", "bounds", "sigma"}
                if extra:
                    probs.append(f"unexpected curve_fit arguments {sorted(extra)}")
            rep.check(not probs, "C14.bounds", inst, fn.where(st), "curve_fit(func, x, y, p0[, sigma=weights][, bounds=converted])", "; ".join(probs))
    # the conversion
    q2 = f"{FT}.convert_bounds_for_curve_fit"
    f2 = prog.func(q2)
    rep.analysed(f2)
    b2 = builder(prog, f2, inline=False)
    ret = [s for s in cfg_of(f2).all_stmts() if isinstance(s, ast.Return)]
    ok = False
    why = "conversion not recognised"
    if len(ret) == 1 and isinstance(ret[0].value, (ast.List, ast.Tuple)) and len(ret[0].value.elts) == 2:
        # element of each returned list as a function of one (lower, upper) pair: appended in a loop over bounds, or a comprehension over bounds
        elems = []
        for e in ret[0].value.elts:
            te = b2.term(e, ret[0])
            el = pair = None
            if te[0] == "comp" and te[1] == "list" and te[4] == P("bounds") and not te[5]:
                el, pair = te[2], ("sub", P("bounds"), ("idx", te[3], "iter"))
            elif isinstance(e, ast.Name):
                loops = [s for s in cfg_of(f2).all_stmts() if isinstance(s, ast.For) and b2.term(s.iter, s) == P("bounds")]
                aps = [st for lp in loops for st in ast.walk(lp) if isinstance(st, ast.Expr) and isinstance(st.value, ast.Call) and isinstance(st.value.func, ast.Attribute)
                       and st.value.func.attr == "append" and isinstance(st.value.func.value, ast.Name) and st.value.func.value.id == e.id]
                if len(loops) == 1 and len(aps) == 1 and not path_conditions(prog, f2, b2).of(aps[0]):
                    el = b2.term(aps[0].value.args[0], aps[0])
                    pair = ("sub", P("bounds"), ("idx", f"{loops[0].lineno}:{loops[0].col_offset}", "iter"))
            elems.append((el, pair))
        if all(el is not None for el, _ in elems):
            def conv_ok(el, v, inf):
                got = set()
                for lits, a in top_alts(el):
                    got.add((tuple(lits), a))
                return got == {((("not", ("isnone", v)),), v), ((("isnone", v),), inf)}
            (el_lo, pr_lo), (el_up, pr_up) = elems
            ok = conv_ok(el_lo, IT(pr_lo, 0), ("neg", G("numpy.inf"))) and conv_ok(el_up, IT(pr_up, 1), G("numpy.inf"))
            why = (f"(lower, upper) pairs must become [lowers, uppers] with None (and only None) -> -inf for lower and None -> +inf for upper; "
                   f"found lower list <- {show(el_lo)[:90]}, upper list <- {show(el_up)[:90]}")
    rep.check(ok, "C14.bounds", f"{q2}:conversion", f2.where(), "[(lo, up)...] -> [[lo or -inf...], [up or +inf...]]", why)


def constrained(prog, rep):
    q = f"{FT}.fit_constrained_function"
    fn = prog.func(q)
    rep.analysed(fn)
    b = builder(prog, fn, inline=False)
    mins = _calls(fn, b, G("scipy.optimize.minimize"))
    if len(mins) != 1:
        raise AnalysisError(f"{q}: expected one minimize call")
    st, t = mins[0]
    bd = bind(t) or {}
    site = fn.where(st)
    rep.check(bd.get("bounds") == P("bounds"), "C14.bounds", f"{q}:bounds", site, "minimize(bounds=bounds)",
              f"declared bounds must reach the constrained optimiser: minimize(..., bounds=bounds); found {show(bd.get('bounds', NONE))[:60]}")
    c = bd.get("constraints")
    okc = c is not None and any(mentions(a, P("constraints")) or a == P("constraints") for a in alts(c))
    rep.check(okc, "C14.constraints", f"{q}:constraints", site, "minimize(constraints=constraints)",
              "the 'constraints' formal is accepted (and defaulted to []) but never reaches scipy.optimize.minimize: declared inequality constraints are silently "
              "ignored (a declared b <= 1 returns b = 2)")
    # the optimiser differentiates numerically: a step far below sqrt(machine epsilon) makes the gradient round-off noise
    opts = bd.get("options")
    eps = None
    if opts is not None and opts[0] == "dict":
        for k_, v_ in opts[1]:
            if k_ == ("const", "eps"):
                eps = v_
    ok_eps = eps is None or (eps[0] == "const" and isinstance(eps[1], (int, float)) and eps[1] >= 1e-10)
    # ... and stops on an ABSOLUTE tolerance of the objective (ftol, default 1e-6): the objective is an un-normalised sum of squares, so for
    # dependence functions with small values (sigma of 0.1 .. 0.3) the default stops far from the optimum
    ftol = None
    if opts is not None and opts[0] == "dict":
        for k_, v_ in opts[1]:
            if k_ == ("const", "ftol"):
                ftol = v_
    tol_kw = bd.get("tol")
    ok_tol = (ftol is not None and ftol[0] == "const" and isinstance(ftol[1], float) and ftol[1] <= 1e-9) or \
             (tol_kw is not None and tol_kw[0] == "const" and isinstance(tol_kw[1], float) and tol_kw[1] <= 1e-9)
    rep.check(ok_tol, "C14.constraints", f"{q}:tolerance", site, "the stopping tolerance is set explicitly (<= 1e-9)",
              "SLSQP is left at its default ftol = 1e-6, an absolute tolerance on the un-normalised sum of squares: for y between 0.1 and 0.3 the constrained fit "
              "reports success at a squared residual 110 times the attainable one (a 1 % change of one parameter still lowers it)")
    rep.check(ok_eps, "C14.constraints", f"{q}:step", site, "finite-difference step left to scipy (or >= 1e-10)",
              f"minimize is given options eps = {show(eps) if eps else None}: with a finite-difference step of that size the numerical gradient of the squared error "
              "is pure round-off, SLSQP stops where it started (or anywhere) and reports success - the result is not a least-squares solution")
    ef = ("call", ("func", f"{FT}.get_least_squares_error_func"), (P("func"), P("x"), P("y")), ())
    rep.check(bd.get("fun") == ef and bd.get("x0") == P("p0"), "C14.start", f"{q}:objective", site, "minimize(least-squares error of func on (x, y), p0)",
              f"the constrained fit must minimise the least-squares error of func on (x, y) starting at p0; found fun={show(bd.get('fun', NONE))[:80]}")
    ef_fn = prog.func(f"{FT}.get_least_squares_error_func.least_squares_error_func")
    be = builder(prog, ef_fn, inline=False)
    r = [s for s in cfg_of(ef_fn).all_stmts() if isinstance(s, ast.Return)][0]
    te = be.term(r.value, r)
    want = ("call", G("numpy.sum"), (("bin", "**", ("bin", "-", ("call", P("func"), (P("x"), ("star", P("p"))), ()), P("y")), ("const", 2)),), ())
    ok = te[0] == "call" and te[1] == G("numpy.sum") and len(te[2]) == 1 and algebra.same(te[2][0], want[2][0])
    rep.check(ok, "C14.start", f"{ef_fn.qualname}:error", ef_fn.where(r), "sum((func(x, *p) - y)**2)", f"the error must be the sum of squared residuals of func(x, *p) against y; found {show(te)[:120]}")


def start_result(prog, rep):
    q = f"{DF}._fit"
    fn = prog.func(q)
    rep.analysed(fn)
    b = builder(prog, fn, inline=False)
    pcs = path_conditions(prog, fn, b)
    params = ("attr", SELF, "parameters")
    p0 = ("call", G("tuple"), (("call", ("attr", params, "values"), (), ()),), ())
    w = ("attr", SELF, "weights")
    ff = _calls(fn, b, ("func", f"{FT}.fit_function"))
    fc = _calls(fn, b, ("func", f"{FT}.fit_constrained_function"))
    cons = ("attr", SELF, "constraints")
    bnd = ("attr", SELF, "bounds")
    ok = len(ff) == 1 and len(fc) == 1
    if ok:
        st, t = ff[0]
        x, y = P("x"), P("y")
        # arguments bound to the callee's own formals (positional or keyword spelling)
        a1 = bind(t, prog.func(f"{FT}.fit_function").positional_params) or {}
        ok1 = set(a1) == {"func", "x", "y", "p0", "method", "bounds", "weights"} and a1["func"] == SELF and (a1["x"], a1["y"], a1["p0"]) == (x, y, p0) \
            and a1["bounds"] == bnd and ("isnone", cons) in pcs.of(st)
        meth = a1.get("method", NONE)
        wts = a1.get("weights", NONE)
        ok1 = ok1 and set(alts(meth)) == {("const", "wlsq"), ("const", "lsq")} and set(alts(wts)) <= {("call", w, (x, y), ()), w, NONE} and ("call", w, (x, y), ()) in alts(wts)
        rep.check(ok1, "C14.start", f"{q}:unconstrained", fn.where(st), "fit_function(self, x, y, p0, method, self.bounds, weights) when no constraints are declared",
                  f"without constraints the function itself must be fitted to (x, y) from the current parameter values with its bounds and weights(x, y); found {show(t)[:220]}")
        st2, t2 = fc[0]
        a2 = bind(t2, prog.func(f"{FT}.fit_constrained_function").positional_params) or {}
        ok2 = set(a2) == {"func", "x", "y", "p0", "method", "bounds", "constraints", "weights"} and a2["func"] == SELF and (a2["x"], a2["y"], a2["p0"]) == (x, y, p0) \
            and a2["bounds"] == bnd and a2["constraints"] == cons and ("not", ("isnone", cons)) in pcs.of(st2) and a2["method"] == meth and a2["weights"] == wts
        rep.check(ok2, "C14.start", f"{q}:constrained", fn.where(st2), "fit_constrained_function(self, x, y, p0, method, self.bounds, self.constraints, weights) when constraints are declared",
                  f"with constraints the constrained fitter must receive the function, data, start values, bounds AND the declared constraints; found {show(t2)[:220]}")
    else:
        rep.fail("C14.start", f"{q}:calls", fn.where(), f"expected one fit_function and one fit_constrained_function call, found {len(ff)} / {len(fc)}")
    upd = [s for s in cfg_of(fn).all_stmts() if isinstance(s, ast.Assign) and isinstance(s.targets[0], ast.Attribute) and s.targets[0].attr == "parameters"]
    okr = False
    if len(upd) == 1:
        t = b.term(upd[0].value, upd[0])
        if t[0] == "call" and t[1] == G("dict") and len(t[2]) == 1 and t[2][0][0] == "call" and t[2][0][1] == G("zip"):
            k, v = t[2][0][2]
            res = {a for a in alts(v)}
            okr = k in (("call", ("attr", params, "keys"), (), ()), params) and all(a[0] == "call" and a[1][0] == "func" and a[1][1].startswith(f"{FT}.fit_") for a in res) and len(res) == 2
        elif t[0] == "comp" and t[1] == "dict" and t[2][0] == "tuple" and len(t[2][1]) == 2:
            # {name: value for name, value in zip(self.parameters, popt)}: the pairs of one zip, key from the names, value from the result
            kk, vv = t[2][1]
            if kk[0] == "sub" and vv[0] == "sub" and kk[2] == vv[2] and kk[2][0] == "idx" and kk[2][2] == "zip":
                res = {a for a in alts(vv[1])}
                okr = kk[1] in (("call", ("attr", params, "keys"), (), ()), params) and all(a[0] == "call" and a[1][0] == "func" and a[1][1].startswith(f"{FT}.fit_") for a in res) and len(res) == 2
    rep.check(okr, "C14.start", f"{q}:result", fn.where(upd[0]) if upd else fn.where(), "self.parameters = dict(zip(self.parameters.keys(), popt))",
              "the optimiser's result must be zipped back onto the same parameter names in the same order")
    return upd


_FC, _DP = ("attr", SELF, "_fitted_conditioners"), ("attr", SELF, "dependent_parameters")


def _all_fitted(l):
    """True: the literal says every conditioner is among the fitted ones; False: it says something else about them; None: not about them"""
    from vstat.terms import ordered as _ordered
    FC, DP = _FC, _DP
    if not mentions(l, FC):
        return None
    if l[0] == "call" and l[1][0] == "attr" and l[1][2] in ("issubset", "issuperset") and len(l[2]) == 1:
        small, big = (l[1][1], l[2][0]) if l[1][2] == "issubset" else (l[2][0], l[1][1])
        return mentions(small, DP) and not mentions(small, FC) and mentions(big, FC) and not mentions(big, DP)
    o = _ordered(l)
    if o is not None:
        return mentions(o[0], DP) and not mentions(o[0], FC) and mentions(o[1], FC) and not mentions(o[1], DP) and not o[2]
    if l[0] == "cmp" and l[1] == "==":
        return mentions(l, DP)
    if l[0] == "call" and l[1] == G("all"):
        return any(w[0] == "cmp" and w[1] == "in" and w[3] == FC for w in walk(l)) and mentions(l, DP)
    return False


def _repacked(conv, kind):
    """the converted pair taken apart and put together again: [conv[0], conv[1]]"""
    return (kind, (("sub", conv, ("const", 0)), ("sub", conv, ("const", 1))))


def protocol(prog, rep):
    # (i) constructor
    init = prog.func(f"{DF}.__init__")
    rep.analysed(init)
    bi = builder(prog, init, inline=False)
    pi = path_conditions(prog, init, bi)
    cfg = cfg_of(init)
    mf = [(s, bi.term(s.value, s), pi.of(s)) for s in cfg.all_stmts() if isinstance(s, ast.Assign) and isinstance(s.targets[0], ast.Attribute) and s.targets[0].attr == "_may_fit"]
    t_first = [x for x in mf if x[1] == ("const", True) and not x[2] and not cfg.enclosing_loops(x[0])]
    f_in = [x for x in mf if x[1] == ("const", False) and cfg.enclosing_loops(x[0]) and any(l[0] == "cmp" and l[1] == "in" for l in x[2])]
    late = [x for x in mf if x not in t_first and x not in f_in and not cfg.enclosing_loops(x[0]) and _all_fitted(x[1]) is True]
    ok = len(t_first) == 1 and len(f_in) + len(late) >= 1 and len(mf) == 1 + len(f_in) + len(late) and all(t_first[0][0].lineno < x[0].lineno for x in f_in + late)
    rep.check(ok, "C14.protocol", f"{init.qualname}:may-fit", init.where(), "_may_fit = True, set to False for a dependence-function parameter that is not fitted yet",
              "a function with (unfitted) dependence-function parameters must start with _may_fit = False (and True otherwise)")
    # a conditioner that was fitted BEFORE this function was declared sends no callback any more: the function must learn that from the
    # conditioner itself (a fitted flag every function sets at the end of _fit), else fit() only records the data and never fits
    _fit0 = prog.func(f"{DF}._fit")
    b0 = builder(prog, _fit0, inline=False)
    c0 = cfg_of(_fit0)
    upd0 = [s for s in c0.all_stmts() if isinstance(s, ast.Assign) and isinstance(s.targets[0], ast.Attribute) and s.targets[0].attr == "parameters"]
    set_true = {}
    for s in c0.all_stmts():
        if isinstance(s, ast.Assign) and isinstance(s.targets[0], ast.Attribute) and b0.term(s.targets[0].value, s) == SELF and b0.term(s.value, s) == ("const", True):
            if len(upd0) == 1 and c0.every_path_passes(c0.node(upd0[0]), [c0.node(s)], to=(EXIT,)):
                set_true[s.targets[0].attr] = s
    starts_false = {s.targets[0].attr for s in cfg.all_stmts() if isinstance(s, ast.Assign) and isinstance(s.targets[0], ast.Attribute) and bi.term(s.targets[0].value, s) == SELF
                    and bi.term(s.value, s) == ("const", False) and not pi.of(s) and not cfg.enclosing_loops(s)}
    flags = sorted(set(set_true) & starts_false)
    okl = False
    why_l = ("no fitted flag found: no attribute that __init__ sets to False and _fit sets to True after the parameters were updated, so a function declared after its "
             "conditioner was fitted (c.fit(x, y); d = DependenceFunction(f, c_of_x=c); d.fit(x, y)) keeps _may_fit False for ever and is never fitted")
    if flags:
        def says_fitted(l):
            """+1: the literal says a conditioner's fitted flag is set, -1: that it is not, 0: something else"""
            sign = 1
            while l[0] == "not":
                sign, l = -sign, l[1]
            if l[0] == "attr" and l[2] in flags and l[1] != SELF:
                return sign
            if l[0] == "call" and l[1] == G("getattr") and len(l[2]) == 3 and l[2][1][0] == "const" and l[2][1][1] in flags and l[2][2] == ("const", False):
                return sign
            return 0
        adds = [s for s in cfg.all_stmts() if isinstance(s, ast.Expr) and isinstance(s.value, ast.Call) and bi.term(s.value, s)[0] == "call"
                and bi.term(s.value, s)[1] == ("attr", _FC, "add") and cfg.enclosing_loops(s)]
        add_ok = bool(adds) and all(any(says_fitted(l) == 1 for l in pi.of(s)) for s in adds)
        false_ok = all(any(says_fitted(l) == -1 for l in x[2]) for x in f_in)
        okl = add_ok and (false_ok if f_in else bool(late))
        why_l = (f"the fitted flag {flags} is kept, but the constructor does not use it: a conditioner whose flag is set must be added to _fitted_conditioners, and "
                 "_may_fit must stay True unless some conditioner is still unfitted"
                 f" (adds under the flag: {add_ok}; _may_fit = False only under 'not fitted': {false_ok if f_in else bool(late)})")
    rep.check(okl, "C14.protocol", f"{init.qualname}:declared-late", init.where(), "a conditioner fitted before the declaration counts as fitted", why_l)
    deps = [s for s in cfg.all_stmts() if isinstance(s, ast.Assign) and isinstance(s.targets[0], ast.Attribute) and s.targets[0].attr == "dependents"]
    rep.check(len(deps) == 1 and bi.term(deps[0].value, deps[0]) == ("list", ()), "C14.protocol", f"{init.qualname}:dependents", init.where(), "self.dependents = []",
              "every function must start with its own empty list of dependents")
    reg = prog.func(f"{DF}.register")
    br = builder(prog, reg, inline=False)
    okreg = any(isinstance(s, ast.Expr) and br.term(s.value, s) == ("call", ("attr", ("attr", SELF, "dependents"), "append"), (P("dependent"),), ()) for s in cfg_of(reg).all_stmts())
    rep.check(okreg, "C14.protocol", f"{reg.qualname}:append", reg.where(), "self.dependents.append(dependent)", "register must record the dependent")
    # (ii) fit records before testing
    fit = prog.func(f"{DF}.fit")
    rep.analysed(fit)
    bf = builder(prog, fit, inline=False)
    pf = path_conditions(prog, fit, bf)
    cf = cfg_of(fit)
    rec = {}
    call = None
    for s in cf.all_stmts():
        if isinstance(s, ast.Assign) and isinstance(s.targets[0], ast.Attribute) and s.targets[0].attr in ("x", "y"):
            rec[s.targets[0].attr] = (s, bf.term(s.value, s))
        if isinstance(s, ast.Expr) and isinstance(s.value, ast.Call):
            t = bf.term(s.value, s)
            if t[0] == "call" and t[1] == ("attr", SELF, "_fit"):
                call = (s, t)
    def conv(t, name):
        """the parameter itself (False) or a value-preserving array conversion of it (True); None for anything else"""
        if t == P(name):
            return False
        if t[0] == "call" and t[1] in (G("numpy.asarray"), G("numpy.array"), G("numpy.asanyarray"), G("numpy.asarray_chkfinite")) and len(t[2]) == 1 and t[2][0] == P(name) \
                and all(k == "dtype" and v in (G("float"), G("numpy.float64")) for k, v in t[3]):
            return True
        return None
    ok = set(rec) == {"x", "y"} and conv(rec["x"][1], "x") is not None and conv(rec["y"][1], "y") is not None and call is not None
    raw_call = call is not None and any(conv(a, n_) is False for a, n_ in zip(call[1][2], ("x", "y")))
    rep.check(bool(ok and conv(rec["x"][1], "x") and conv(rec["y"][1], "y") and not raw_call), "C14.protocol", f"{fit.qualname}:array-like", fit.where(), "x and y are recorded as arrays",
              "x and y are documented as array-like, but they reach the function (func(x, *p) on the SLSQP path) and the weights callable (weights(x, y)) as they were "
              "passed: ConditionalDistribution.fit hands the estimates over as a Python LIST, so weights=lambda x, y: 1 / y raises TypeError, 2 * y repeats the list, "
              "and a constrained fit of list data raises; record np.asarray(x), np.asarray(y)")
    if ok:
        s, t = call
        def arg_ok(a, name):
            return a == ("attr", SELF, name) or conv(a, name) is not None
        raw_args = [n_ for a, n_ in zip(t[2], ("x", "y")) if conv(a, n_) is False]
        ok = tuple(pf.of(s)) == (("attr", SELF, "_may_fit"),) and len(t[2]) == 2 and arg_ok(t[2][0], "x") and arg_ok(t[2][1], "y") \
            and all(cf.dominates(cf.node(rec[k][0]), cf.node(cf.enclosing(s)[0][0] if cf.enclosing(s) else s)) and not pf.of(rec[k][0]) for k in rec)
    rep.check(ok, "C14.protocol", f"{fit.qualname}:record-then-test", fit.where(), "self.x, self.y = x, y recorded unconditionally before 'if self._may_fit: self._fit(x, y)'",
              "fit must record (x, y) BEFORE testing _may_fit (a premature call is replayed by callback) and fit only when _may_fit")
    # (iii) _fit notifies every dependent on every normal exit after the update
    _fit = prog.func(f"{DF}._fit")
    b_ = builder(prog, _fit, inline=False)
    c_ = cfg_of(_fit)
    upd = [s for s in c_.all_stmts() if isinstance(s, ast.Assign) and isinstance(s.targets[0], ast.Attribute) and s.targets[0].attr == "parameters"]
    loops = [s for s in c_.all_stmts() if isinstance(s, ast.For) and b_.term(s.iter, s) == ("attr", SELF, "dependents")]
    ok = False
    why = "no loop over self.dependents calling callback(self) found"
    if len(loops) == 1 and len(upd) == 1:
        lp = loops[0]
        el = ("sub", ("attr", SELF, "dependents"), ("idx", f"{lp.lineno}:{lp.col_offset}", "iter"))
        body_ok = len(lp.body) == 1 and isinstance(lp.body[0], ast.Expr) and b_.term(lp.body[0].value, lp.body[0]) == ("call", ("attr", el, "callback"), (SELF,), ())
        passes = c_.every_path_passes(c_.node(upd[0]), [c_.node(lp)], to=(EXIT,))
        nobreak = not any(isinstance(n, (ast.Break, ast.Return)) for n in ast.walk(lp))
        ok = body_ok and passes and nobreak
        why = ("after the parameters are updated every normal exit of _fit must run 'for dependent in self.dependents: dependent.callback(self)' "
               f"completely (body ok={body_ok}, on every path={passes}, no early exit={nobreak})")
    rep.check(ok, "C14.protocol", f"{_fit.qualname}:notify", _fit.where(), "update parameters, then callback(self) for every dependent on every normal exit", why)
    # (iv) callback enables and replays
    cb = prog.func(f"{DF}.callback")
    rep.analysed(cb)
    bc = builder(prog, cb, inline=False)
    pc = path_conditions(prog, cb, bc)
    cc = cfg_of(cb)
    en = [s for s in cc.all_stmts() if isinstance(s, ast.Assign) and isinstance(s.targets[0], ast.Attribute) and s.targets[0].attr == "_may_fit" and bc.term(s.value, s) == ("const", True)]
    rf = [s for s in cc.all_stmts() if isinstance(s, ast.Expr) and isinstance(s.value, ast.Call) and bc.term(s.value, s) == ("call", ("attr", SELF, "fit"), (("attr", SELF, "x"), ("attr", SELF, "y")), ())]
    ok = len(en) == 1 and len(rf) == 1 and cc.dominates(cc.node(en[0]), cc.node(rf[0]))
    if ok:
        hx = ("call", G("hasattr"), (SELF, ("const", "x")), ())
        hy = ("call", G("hasattr"), (SELF, ("const", "y")), ())
        extra = [l for l in pc.of(rf[0]) if l not in pc.of(en[0])]
        def has_all(l):
            # all(hasattr(self, name) for name in ("x", "y"))
            return l[0] == "call" and l[1] == G("all") and any(w == G("hasattr") for w in walk(l)) and any(w == ("const", "x") for w in walk(l)) \
                and any(w == ("const", "y") for w in walk(l))
        ok = all(l in (hx, hy) or has_all(l) for l in extra) and (hx in extra or any(has_all(l) for l in extra))
    rep.check(ok, "C14.protocol", f"{cb.qualname}:replay", cb.where(), "_may_fit = True, then self.fit(self.x, self.y) whenever data were recorded",
              "callback must enable fitting and re-enter fit with the recorded data whenever fit was called before (hasattr x / y): otherwise a dependent "
              "fitted before its conditioner keeps parameters from the unfitted conditioner")
    added = any(isinstance(s, ast.Expr) and bc.term(s.value, s) == ("call", ("attr", ("attr", SELF, "_fitted_conditioners"), "add"), (P("caller"),), ()) for s in cc.all_stmts())
    rep.check(added, "C14.protocol", f"{cb.qualname}:record-caller", cb.where(), "_fitted_conditioners.add(caller)", "callback must record which conditioner has been fitted")
    all_fitted = _all_fitted
    verdicts = [all_fitted(l) for l in (pc.of(en[0]) if en else ())]
    okc = bool(en) and True in verdicts and False not in verdicts
    rep.check(okc, "C14.protocol", f"{cb.qualname}:condition", cb.where(), "fitting is enabled when EVERY conditioner has been fitted (conditioners <= fitted)",
              "fitting must be enabled only when every dependence-function parameter is among the recorded fitted conditioners "
              "(set(dependent_parameters.values()) <= _fitted_conditioners); the test found is the other way round or about something else: with two "
              "conditioners the function is fitted against an unfitted one after the first callback")
