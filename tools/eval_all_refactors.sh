#!/bin/bash
# every behaviour-preserving patch we have (kept twins under seeded/refactor-*, candidates in scratch worktrees) against all 20 checks
ls /verif/seeded/refactor*/patch.diff /tmp/wr_C*/_refactor/patch.diff 2>/dev/null | sort -u | \
  xargs -P 10 -I{} sh -c 'out=$(MAXL=6 /verif/tools/eval_refactor.sh {} 2>&1 | grep -v "^== done"); echo "### {}"; [ -n "$out" ] && echo "$out"' 
