#!/bin/bash
# usage: confirm_refactor.sh <worktree> <name> -- same.py must print identical output on the original and on the refactored tree
wt=$1; name=$2; r=$wt/_refactor
cd $wt && git checkout -q -- virocon && export PYTHONPATH=$wt
timeout 900 /venv/bin/python -W ignore $r/same.py > /tmp/same_o_$name.out 2>&1; o=$?
git apply $r/patch.diff || { echo "patch does not apply"; exit 3; }
timeout 900 /venv/bin/python -W ignore $r/same.py > /tmp/same_c_$name.out 2>&1; c=$?
if [ $o -eq 0 ] && [ $c -eq 0 ] && cmp -s <(grep -v "^elapsed" /tmp/same_o_$name.out) <(grep -v "^elapsed" /tmp/same_c_$name.out); then
  mkdir -p /verif/seeded/$name; cp $r/patch.diff $r/same.py $r/meta.json /verif/seeded/$name/
  echo "identical output ($(wc -l < /tmp/same_o_$name.out) lines, digest $(sha256sum < /tmp/same_o_$name.out | cut -c1-16))" > /verif/seeded/$name/confirm.log
  echo "KEPT $name"
else echo "NOT CONFIRMED $name (exit $o/$c)"; fi
