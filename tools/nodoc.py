"""Print a python file without docstrings (original line numbers kept)."""
import ast, sys
src = open(sys.argv[1]).read()
tree = ast.parse(src)
skip = set()
for n in ast.walk(tree):
    if isinstance(n, (ast.FunctionDef, ast.ClassDef, ast.Module, ast.AsyncFunctionDef)):
        b = n.body
        if b and isinstance(b[0], ast.Expr) and isinstance(b[0].value, ast.Constant) and isinstance(b[0].value.value, str):
            for l in range(b[0].lineno, b[0].end_lineno + 1):
                skip.add(l)
lo = int(sys.argv[2]) if len(sys.argv) > 2 else 1
hi = int(sys.argv[3]) if len(sys.argv) > 3 else 10**9
for i, line in enumerate(src.splitlines(), 1):
    if i in skip or not line.strip() or i < lo or i > hi:
        continue
    print(f"{i}\t{line}")
