#!/venv/bin/python
"""For every breaking seed under seeded/ that has no verif.json yet (or all with --all): apply it to a scratch copy of
/repo/virocon, run the twenty checks and record which rules of which property report it (verif.json, used by the
self-test as the expected verdict).  Only the seed's OWN property and properties whose rules fire are recorded."""
import json, os, re, shutil, subprocess, sys, tempfile
from concurrent.futures import ThreadPoolExecutor
HERE = os.path.dirname(os.path.dirname(os.path.abspath(__file__)))
PROPS = [f"C{i:02d}" for i in range(1, 21)]


def verdict(seed_dir):
    d = tempfile.mkdtemp(prefix="vseed_")
    try:
        shutil.copytree("/repo/virocon", os.path.join(d, "virocon"), ignore=shutil.ignore_patterns("__pycache__"))
        subprocess.run(["git", "apply", os.path.join(seed_dir, "patch.diff")], cwd=d, check=True)
        out = {}
        for p in PROPS:
            r = subprocess.run([os.path.join(HERE, "check"), p, "--root", d, "--no-write"], capture_output=True, text=True)
            if r.returncode == 1:
                rules = sorted({m.group(1) for m in re.finditer(r"^  FAIL (\S+) ", r.stdout, re.M)})
                out[p] = rules
        return out
    finally:
        shutil.rmtree(d, ignore_errors=True)


def main():
    todo = []
    base = os.path.join(HERE, "seeded")
    for name in sorted(os.listdir(base)):
        sd = os.path.join(base, name)
        if name.startswith("refactor") or not os.path.exists(os.path.join(sd, "patch.diff")):
            continue
        if os.path.exists(os.path.join(sd, "verif.json")) and "--all" not in sys.argv:
            continue
        todo.append((name, sd))
    with ThreadPoolExecutor(max_workers=8) as ex:
        res = list(ex.map(lambda t: verdict(t[1]), todo))
    for (name, sd), det in zip(todo, res):
        own = name[:3]
        meta = json.load(open(os.path.join(sd, "meta.json")))
        v = {"detected_by": det, "own_property": own, "own_property_detects": own in det, "summary": str(meta.get("summary", ""))[:300]}
        json.dump(v, open(os.path.join(sd, "verif.json"), "w"), indent=1)
        print(f"{name}: own={own in det} by={ {k: v_ for k, v_ in det.items() if k == own} or list(det)}")


if __name__ == "__main__":
    main()
