#!/venv/bin/python
"""setup_cmd: the framework is pure Python; verify that it imports and parses /repo."""
import os
import sys

HERE = os.path.dirname(os.path.dirname(os.path.abspath(__file__)))
sys.path.insert(0, HERE)
import importlib

n = 0
for d in ("vstat", "rules", "selftest", "tools"):
    for fn in sorted(os.listdir(os.path.join(HERE, d))):
        if fn.endswith(".py"):
            with open(os.path.join(HERE, d, fn)) as fh:
                compile(fh.read(), fn, 'exec')
            n += 1
from vstat.loader import Program
p = Program("/repo")
from vstat import scipyinfo
scipyinfo.shapes("weibull_min")
os.makedirs(os.path.join(HERE, "evidence"), exist_ok=True)
print(f"setup ok: {n} framework files compile; {len(p.modules)} repo modules, {len(p.functions)} functions parsed")
