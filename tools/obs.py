#!/venv/bin/python
"""usage: obs.py PROP ROOT [rule-prefix] -- list every obligation (rule, instance, status) a check produces on ROOT"""
import sys, importlib
sys.path.insert(0, "/verif")
from vstat.loader import Program
from vstat.report import Report
prop, root = sys.argv[1], sys.argv[2]
pref = sys.argv[3] if len(sys.argv) > 3 else ""
prog = Program(root)
rep = Report(prop, "quick", root)
importlib.import_module(f"rules.{prop.lower()}").run(prog, rep)
for o in rep.obs:
    if o.rule.startswith(pref):
        print(o.status if hasattr(o, "status") else o[3], o.rule if hasattr(o, "rule") else o[0], o.instance if hasattr(o, "instance") else o[1])
for e in rep.errors:
    print("ERR", e)
