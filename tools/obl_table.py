#!/venv/bin/python
"""Print the table of DESIGN.md section 9.3 (rules and obligation counts, quick tier) from the checks themselves."""
import re, subprocess, os
HERE = os.path.dirname(os.path.dirname(os.path.abspath(__file__)))
print("| id | obligations | rules (count) |\n|---|---|---|")
for i in range(1, 21):
    p = f"C{i:02d}"
    out = subprocess.run([os.path.join(HERE, "check"), p, "--no-write"], capture_output=True, text=True).stdout
    tot = re.search(r"obligations=(\d+)", out).group(1)
    rules = re.findall(r"rule %s\.(\S+): (\d+) obligations" % p, out)
    print(f"| {p} | {tot} | " + " · ".join(f"{r} {n}" for r, n in rules) + " |")
