#!/bin/bash
# usage: eval_seed.sh <patch.diff> [PROP...]  -- apply a seeded change to /repo, run the quick checks, undo it straight afterwards.
# Prints which checks fire.  /repo must be clean before and is clean after.
set -u
patch=$1; shift
props=${@:-$(seq -f "C%02g" 1 20)}
if [ -n "$(git -C /repo status --porcelain --untracked-files=no)" ]; then echo "/repo not clean"; exit 3; fi
git -C /repo apply "$patch" || { echo "patch does not apply"; exit 3; }
trap 'git -C /repo checkout -- . ' EXIT
for p in $props; do
  out=$(/verif/check $p --no-write 2>/dev/null); rc=$?
  if [ $rc -ne 0 ]; then echo "== $p exit $rc"; echo "$out" | grep -E "^  FAIL|ANALYSIS-ERROR" | cut -c1-330 | head -8; fi
done
echo "== done"
