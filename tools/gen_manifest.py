#!/venv/bin/python
"""Regenerate MANIFEST.json from the table below (claimed = rules/<id>.py exists)."""
import json
import os

HERE = os.path.dirname(os.path.dirname(os.path.abspath(__file__)))

BASE_NOTE = ("Trusted base: CPython ast of the interpreter the repo runs on; the engine in /verif/vstat (CFG, reaching "
             "definitions, canonical terms, rational normal forms); the hand-confirmed frozen instance tables in the rule "
             "(anchors by qualified name, minimum instance counts - a vanished anchor is ANALYSIS-ERROR exit 2); ")

P = {
 "C01": dict(tech="static: index-agreement (IDX) and source-to-sink flow rules on canonical terms over reaching definitions; typestate/dominance on the CFG of NSphere",
             text="Decides the wiring clauses of the inverse-Rosenblatt construction on every path, for every n_dim / conditional_on / family: beta formula and its alpha source, circle/NSphere direction grid, u->p through the standard normal cdf, and for every column store the agreement of distribution index, probability column and conditioning column of the matrix being filled, guarded by the None-test of the same index. Necessary conditions of C01, not the numerical statement (icdf inverting cdf is scipy's).",
             note="scipy.stats norm/chi2 semantics; the hierarchy invariant conditional_on[i] < i (established by the C18 guard); NSphere relaxation quality is not decided."),
 "C02": dict(tech="static: formula normal-form (FORM), operator (OPS), index-agreement and warn-dominance rules on CFG + canonical terms",
             text="Decides the cell-probability formula (cdf(c+dx/2)-cdf(c-dx/2), /dx once, same-axis dx and conditioning grid), the factor product over all dimensions, multiply/divide pairing over the same deltas, the 1-alpha level, the descending stable sort + cumsum<=limit + same-index selection + last-selected threshold, and that an unreachable limit always ends in a RuntimeWarning. Necessary wiring conditions; the enclosed probability itself is numerical and not decided.",
             note="numpy argsort/cumsum/unravel_index semantics; monotone cdfs (C05 residue)."),
 "C03": dict(tech="static: rational-function normal form of the tangent-line intersection (Cramer) + index/slice agreement + quantile-level flow",
             text="Decides that every direction gets np.quantile(x cos a_i + y sin a_i, 1-alpha) stored at its own index, that the vertex formula equals the solution of the 2x2 tangent-line system as a rational function of cos/sin/r atoms with the same shifted slices on angles and radii, the wrap-around of both arrays, the angular step, n=int(100/alpha), and flags the float-step arange direction grid (count decided by rounding). Not the Monte-Carlo / tie semantics of numpy.quantile.",
             note="numpy quantile/arange semantics."),
 "C04": dict(tech="static: sibling cross-check of AndContour/OrContour._compute, loop-exit dominance (warn before break) and in-sync typestate on the CFG, operator rules",
             text="Decides and/or combiner, strict > against the matching vector component, pe=count/size, that the search loop leaves only through its tolerance test or a warned break, that the stored point is the vector pe was computed from, the ray formula, closure points and the OR range filter. Not that the step-halving search converges.",
             note="numpy logical_and/or; the loop terminates."),
 "C05": dict(tech="static: parameter-liveness (PARAM), slot-table (MAP) against scipy's positional signature read from scipy sources, sibling agreement (SIB) on canonical terms; numerical lints (ln(1 +/- r) spelt log1p), early-exit path rule of the generic wrapper",
             text="Decides for every distribution family that each explicit parameter reaches its scipy slot on the not-None branch and the stored one on the None branch, that the slot tuple equals the documented parameterisation (frozen table checked against scipy's shape names), and that cdf/icdf/pdf/draw_sample use the same scipy object, methods cdf/ppf/pdf/rvs and the same slot tuple with formals equal to the parameters keys. Necessary wiring conditions; scipy's function values are not decided.",
             note="scipy's documented parameterisation; the slot table in rules/distfam.py."),
 "C06": dict(tech="static: index-agreement chain rule, inverse-permutation check of the nquad wrappers (FORM/IDX), delegation sibling rule; integration-range rule (every integrated variable between its own extreme quantiles, conditioning value read at the right nquad argument position)",
             text="Decides that GlobalHierarchicalModel.pdf multiplies, for every column, the density of distributions[i] at x[:, i] given x[:, conditional_on[i]] of the same point matrix, guarded by finiteness; that the nquad wrappers restore the argument vector with the inverse permutation of the same order that fixes ranges; limits (0, x_ij); unconditional marginals delegate to pdf/cdf/icdf respectively; the Monte-Carlo quantile reads the requested column of a sample of self. Quadrature/Monte-Carlo error is not decided.",
             note="scipy.integrate.nquad argument convention (ranges[0] is the first argument, args= appended last)."),
 "C07": dict(tech="static: RNG-threading (must-pass random_state to every RNG-consuming call, single Generator conversion dominates the loop), chain index rule, who-may-seed rule",
             text="Decides that conditional sampling uses the already sampled conditioning column of the same matrix and row order, that every RNG-consuming call below a random_state formal receives it (or one Generator built from it before the per-dimension loop), that each family draws with rvs(*same slots, size=_get_rvs_size(n, slots), random_state=...), and that no sampling path seeds globally or from a literal. Distributional agreement is statistical and not decided.",
             note="scipy rvs honours random_state; numpy default_rng passes Generators through."),
 "C08": dict(tech="static: key-agreement (IDX) in _get_param_values, forwarder sibling rule, keyword-contract rule across all families, partial-binding flow in DependenceFunction",
             text="Decides that every parameter name gets conditional_parameters[K](given) or fixed_parameters[K] under the same key with no branching on the shape of given, that pdf/cdf/icdf/draw_sample forward to the same-named template method with those keywords, that every family accepts its parameters keys as keywords (and honours them: C05.paramflow), and that chained dependence functions are bound under their own name and evaluated at the same argument. Numerical equality of vectorised and scalar evaluation is numpy's.",
             note="numpy broadcasting."),
 "C09": dict(tech="static: row-alignment typing (pos/rank/perm index spaces) of slicer masks, index-agreement in GHM.fit/_split_in_intervals, allocation freshness of the per-interval template copy; None-default flow sweep (rules/noneflow.py: no None default reaches a dereference, package-wide) and caller-unchanged rule for the fit descriptions",
             text="Decides that every slicer returns masks aligned with input positions (not sorted ranks), that slicer, data column, fit options and conditioning index of a dimension carry the same index, that each interval is fitted on a deepcopy of the template with that dimension's method/weights and that dependence functions are fitted to (reference values, estimates under their own key). Equality with a stand-alone optimiser run is not decided.",
             note="numpy argsort/isin semantics as tabulated in vstat/align.py."),
 "C10": dict(tech="static: comparison-operator cover rule (OPS), shared-edge rule (EDGE: adjacent bounds must be one value), alignment typing, boundary/reference normal forms, guard dominance",
             text="Decides half-open orientation (one strict, one non-strict bound, include_max only on the last), that the upper bound of interval k and the lower bound of interval k+1 are read from the same edge value (two different float expressions for one edge lose or duplicate edge observations), masks aligned with positions, reported boundaries equal to mask bounds in normal form, reference values, the >= min_n_points drop rule with index agreement and the RuntimeError on too few intervals. Counting of arange/linspace intervals is runtime.",
             note="IEEE arithmetic: two different expressions of one real edge are not assumed equal."),
 "C11": dict(tech="static: per class x parameter constructor rule, fit-keyword MAP rule against scipy's fit grammar (f<k>/f<shape>/fix_<shape>/floc/fscale read from scipy sources), inverse-transform unpack rule, who-may-write",
             text="Decides that f_<p> sets the attribute at construction, that _fit_mle passes under the guard f_p is not None a scipy fit keyword valid for the slot p occupies with the slot's transform, that the fit result is unpacked slot by slot through the inverse transform, the lsq fixed-delta branch, ConditionalDistribution.fixed_parameters and the set of writers of parameter attributes. The optimiser's numeric result beyond scipy's f-keyword guarantee is not decided.",
             note="scipy fit honours valid f-keywords exactly."),
 "C12": dict(tech="static: reduction to scipy's optimiser - dispatch guard rule, call-shape rule (same scipy object, unmodified data, start values in slot order), write-back rule",
             text="Decides only the reduction: fit dispatches mle/lsq/wlsq case-insensitively and raises otherwise; _fit_mle calls fit of the same scipy object as cdf with the unmodified data and start values in slot order through the slot transforms; every non-constant slot of the result is written back through the inverse transform. Likelihood optimality and scale equivariance are scipy's optimiser's and are NOT decided.",
             note="scipy.stats.<dist>.fit is a correct MLE for the slot mapping."),
 "C13": dict(tech="static: rational normal-form comparison of the weighted regression estimator, weight-normalisation dominance rule, zero-filter index agreement, alignment typing of weights vs sorted sample; dtype lint (sample converted to float before powers are summed), log1p lint",
             text="Decides the plotting positions, the log10/log-log linearisation, that b_hat/a_hat equal the weighted least-squares template in normal form under normalised weights, that weights are normalised on every path into the formula after the zero filter, the weight keyword map and its ValueError, that the same (x,p,w) triple feeds the delta search and the final estimate, and that per-observation weights are permuted with the sort. fmin finding a local minimiser is not decided.",
             note="numpy elementwise semantics."),
 "C14": dict(tech="static: flow of bounds/constraints formals to the optimiser call (PARAM), typestate protocol of register/fit/_fit/callback on the CFGs (dominance, must-pass-through); late-declaration typestate (fitted flag), array-like recording of x / y, optimiser tolerance / start-feasibility lints",
             text="Decides that declared bounds reach curve_fit/minimize in (lower, upper) order with None mapped to -inf/+inf, that declared constraints reach the optimiser, that start values/results keep key order, and the callback protocol that makes the last fit of a dependent follow the last fit of its conditioners in any call order. Optimality of curve_fit/SLSQP is not decided.",
             note="scipy curve_fit / minimize honour bounds and constraints."),
 "C15": dict(tech="static: same-structuring-element flow rule, enumerate index agreement of label coordinates, permutation contract lint of the sorter (single-source traversal used as a full ordering); array-like conversion rule of the sorter",
             text="Decides that erosion and labelling use the same full 3^n structure, boundary = region - erosion with default border, coordinates of dimension d come from cell centres d at the nonzero indices d for every label, the single/multiple component shapes, and that the sorter's order is a full permutation (a single-source DFS preorder is not). Geometric quality of the ordering is not decided.",
             note="scipy.ndimage binary_erosion/label and networkx dfs_preorder_nodes documented semantics."),
 "C16": dict(tech="static: Laurent-monomial normal forms with rational exponents over positive symbols (inverse o transform = id, Jacobian = d transform), wiring flow rules, RNG threading over the call graph; memo-follows-the-model rule, Monte-Carlo estimator rules (fraction of the sample actually returned, no fabricated value in the CouldNotSampleError handler), cancellation lint on the non-monomial inverse",
             text="Decides algebraically, on the positive quadrant, that the shipped monomial transform pairs are mutual inverses and that the predefined Jacobians equal the derivative of the transform as a function of the argument they are called with; TransformedModel pdf/draw_sample/fit wiring; given-column selection; and that every RNG-consuming call reachable from IFORM on a TransformedModel receives the model's random_state. Normalisation, support search and Monte-Carlo agreement are not decided.",
             note="positivity of hs, tz, s; numpy elementwise semantics."),
 "C17": dict(tech="static: swap-index MAP rule, flow rules for probe/result, operator rule of the in-range filter, contract lint (no assertion bounding the number of crossings); on-line vertex rule, singular-system handler rule of the intersection routine",
             text="Decides swap_axis index mapping, closing of both series, the probe segment, that the result pairs the requested abscissa with np.max of the intersection ordinates, default abscissae, the four [0,1] comparisons of the segment parameters, and that nothing between intersection and max bounds the number of crossings. Geometric correctness of the 4x4 solve is not decided.",
             note="numpy linalg.solve."),
 "C18": dict(tech="static: guard table - for each malformation class the tested quantity, exception class and dominance of the guard over the computation of its entry point (CFG dominators + path conditions)",
             text="Decides for each malformation class of the statement that a guard testing that quantity raises the right exception class and dominates all computation of its entry point (33 rows, including conditional_on[i] in [0,i) and the reference checks of all three slicers). Not that every conceivable malformed input is covered.",
             note="the table is the statement's list."),
 "C19": dict(tech="static: effect summaries (alias classes + mutation sites) propagated over the call graph to a fixpoint, allocation-site freshness for the predefined getters and the per-interval template copy, who-may-write globals; package-wide argument-mutation sweep with reaching definitions (rules/argmut.py), generator-in-default-argument lint",
             text="Decides that no public evaluation entry point mutates a parameter object or a view of one, writes no model/distribution/slicer attribute (contours write only their own), that the per-interval fit receiver is a fresh deepcopy, that everything returned by the predefined getters is allocated inside the call, and that no function assigns module-level mutable state. Bitwise repeatability beyond absence of hidden state is not decided.",
             note="numpy copy/view table in vstat/effects.py."),
 "C20": dict(tech="static: flow/MAP rules on the arguments handed to np.savetxt / matplotlib / pandas (format, delimiter, header, closing point, swap indices), truth-value-of-array lint; replacement-template lint of re.sub, one-header-line rule",
             text="Decides what is handed to savetxt (path extension rule, coordinates, %1.6f, ';', header built per dimension from names/units), to plot/scatter (closed polyline of columns x_idx/y_idx, swap iff swap_axis, supplied design conditions used as given and never as a truth value), the other plots' data sources, and read_csv arguments with the first column as datetime index. What matplotlib/pandas do with those arguments is not decided.",
             note="matplotlib / pandas / numpy.savetxt semantics."),
}


def main():
    checks = []
    na = []
    for pid in sorted(P):
        spec = P[pid]
        if os.path.exists(os.path.join(HERE, "rules", pid.lower() + ".py")):
            checks.append({
                "property_id": pid,
                "quick_cmd": f"./check {pid} --tier quick",
                "thorough_cmd": f"./check {pid} --tier thorough",
                "evidence_file": f"/verif/evidence/{pid}.json",
                "replay_cmd_template": f"./check {pid} --replay {{path}}",
                "engine": "vstat",
                "level_claimed": {"category": "other",
                                  "text": "Static wiring clauses (necessary conditions), not the behaviour. " + spec["text"],
                                  "design_ref": f"DESIGN.md section 3, {pid}"},
                "level_note": BASE_NOTE + spec["note"],
                "technique": spec["tech"],
            })
        else:
            na.append({"property_id": pid, "reason": "check not built yet in this session (static wiring rules designed in DESIGN.md section 3); not claimed until the rule file exists"})
    man = {
        "version": 1,
        "setup_cmd": "/venv/bin/python tools/setup_check.py",
        "hooks": {
            "guard": "VIROCON_VERIF",
            "enable": "none needed: static analysis reads /repo sources; no instrumentation commits exist",
            "baseline_off_cmd": "cd /repo && /venv/bin/python -m pytest -ra -q -p no:cacheprovider --timeout=900 --continue-on-collection-errors",
            "source_commits": [],
            "add_only": True,
        },
        "engines": [{"name": "vstat", "path": "/verif/vstat",
                     "serves_properties": [c["property_id"] for c in checks],
                     "kind_free_text": "repository-specific static analyser: ast loader, statement CFG + dominators (networkx), reaching definitions, canonical terms with property/function look-through, rational normal forms, path conditions, effect summaries, alignment typing"}],
        "checks": checks,
        "notes": "All checks are static (no virocon code is executed). exit 0 = all obligations discharged or listed in known_findings.json (KNOWN-FINDING lines); exit 1 = VIOLATION; exit 2 = ANALYSIS-ERROR (vanished anchor / instance count below confirmed minimum / internal error). thorough = quick rules + mutation self-test of the rule instances on scratch copies.",
        "not_applicable": na,
    }
    with open(os.path.join(HERE, "MANIFEST.json"), "w") as fh:
        json.dump(man, fh, indent=1)
        fh.write("\n")
    print(f"claimed {len(checks)}, not_applicable {len(na)}")


if __name__ == "__main__":
    main()
