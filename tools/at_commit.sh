#!/bin/bash
# usage: at_commit.sh <commit> PROP...   -- run checks against /repo's virocon at <commit> (scratch copy, removed afterwards)
c=$1; shift
d=$(mktemp -d /tmp/vat_XXXX)
git -C /repo archive $c virocon | tar -x -C $d
for p in "$@"; do /verif/check $p --root $d --no-write 2>/dev/null | grep -E "^\[|FAIL|VIOLATION|ANALYSIS|KNOWN"; done
rm -rf $d
