#!/bin/bash
# usage: confirm_seed.sh <worktree> <name>  -- confirm an independently written breaking change in its scratch worktree:
#   demo passes on the original, fails with the change, the existing suite is unchanged (only the baseline failure).
# On success copies patch.diff, demo.py, meta.json to /verif/seeded/<name>/ together with confirm.log.
wt=$1; name=$2
seed=$wt/${3:-_seed}
[ -f $seed/patch.diff ] || { echo "no patch"; exit 3; }
cd $wt
git checkout -q -- virocon
export PYTHONPATH=$wt
log=/tmp/confirm_$name.log
{
echo "== original: demo.py"; timeout 600 /venv/bin/python -W ignore $seed/demo.py >/tmp/demo_o_$name.out 2>&1; o=$?; echo "exit $o"; tail -3 /tmp/demo_o_$name.out
git apply $seed/patch.diff || { echo "patch does not apply"; exit 3; }
echo "== changed: demo.py"; timeout 600 /venv/bin/python -W ignore $seed/demo.py >/tmp/demo_c_$name.out 2>&1; c=$?; echo "exit $c"; tail -3 /tmp/demo_c_$name.out
echo "== changed: test suite"; /venv/bin/python -m pytest -q -p no:cacheprovider -n 6 --timeout=900 tests 2>&1 | tail -4 > /tmp/suite_$name.out; cat /tmp/suite_$name.out
} > $log 2>&1
o=$(grep -A1 "== original" $log | tail -1); c=$(grep -A1 "== changed: demo" $log | tail -1)
suite=$(grep -E "passed" /tmp/suite_$name.out | tail -1)
# a test that fails under load but passes when re-run alone (unseeded Monte-Carlo tests) is flaky, not broken by the change
fails=0
for t in $(grep -E "^FAILED" /tmp/suite_$name.out | grep -v test_v_hs_hd_contour | awk '{print $2}'); do
  ok=1
  for k in 1 2; do /venv/bin/python -m pytest -q -p no:cacheprovider --timeout=900 "$t" >/tmp/rerun_$name.out 2>&1 && { ok=0; break; }; done
  echo "rerun $t -> $ok" >> $log
  [ $ok -ne 0 ] && fails=$((fails+1))
done
echo "$name: original[$o] changed[$c] suite[$suite] other-failures[$fails]"
if [ "$o" = "exit 0" ] && [ "$c" != "exit 0" ] && [ "$fails" = "0" ] && echo "$suite" | grep -qE "passed"; then
  mkdir -p /verif/seeded/$name; cp $seed/patch.diff $seed/demo.py $seed/meta.json /verif/seeded/$name/; cp $log /verif/seeded/$name/confirm.log; echo "KEPT $name"
else
  echo "NOT CONFIRMED $name (see $log)"
fi
