#!/bin/bash
# usage: eval_seed2.sh <worktree> [variants..] -- run all 20 checks on a scratch copy with each round-2 variant applied; one line per (variant, property) that alarms
wt=$1; shift; vs=${@:-a b}
for v in $vs; do
  p=$wt/_seed_$v/patch.diff
  [ -f $p ] || { echo "$(basename $wt) $v: no patch"; continue; }
  echo "#### $(basename $wt) $v: $(python3 -c "import json;print(json.load(open('$wt/_seed_$v/meta.json'))['summary'][:160])" 2>/dev/null)"
  MAXL=${MAXL:-3} /verif/tools/eval_refactor.sh $p 2>&1 | grep -v "^== done" | cut -c1-${W:-260}
done
