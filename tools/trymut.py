#!/venv/bin/python
"""Manual probe: copy /repo/virocon to a scratch dir, apply one textual replacement, run checks.
usage: trymut.py <file> <old> <new> PROP [PROP...]"""
import os, shutil, subprocess, sys, tempfile, warnings
warnings.simplefilter("ignore")
f, old, new, *props = sys.argv[1:]
d = tempfile.mkdtemp(prefix="vmut_")
try:
    shutil.copytree("/repo/virocon", os.path.join(d, "virocon"))
    p = os.path.join(d, "virocon", f)
    s = open(p).read()
    n = s.count(old)
    if n != 1:
        print(f"pattern occurs {n} times"); sys.exit(3)
    s = s.replace(old, new)
    compile(s, p, "exec")
    open(p, "w").write(s)
    for pr in props:
        r = subprocess.run(["/verif/check", pr, "--root", d, "--no-write"], capture_output=True, text=True)
        lines = [l for l in r.stdout.splitlines() if "FAIL" in l or "ANALYSIS-ERROR" in l or "VIOLATION" in l]
        print(f"{pr}: exit {r.returncode}")
        for l in lines[:6]:
            print("   ", l[:260])
        if r.returncode not in (0, 1):
            print(r.stdout[-500:], r.stderr[-800:])
finally:
    shutil.rmtree(d)
