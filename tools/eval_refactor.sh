#!/bin/bash
# usage: eval_refactor.sh <patch.diff> [PROP...] -- apply a behaviour-preserving patch to a scratch copy, run the checks, list every alarm
patch=$1; shift
props=${@:-$(seq -f "C%02g" 1 20)}
d=$(mktemp -d /tmp/vref_XXXX)
cp -r /repo/virocon $d/; rm -rf $d/virocon/__pycache__
(cd $d && git apply $patch) || { echo "patch does not apply"; rm -rf $d; exit 3; }
for p in $props; do
  base=$(/verif/check $p --no-write >/dev/null 2>&1; echo $?)
  out=$(/verif/check $p --root $d --no-write 2>/dev/null); rc=$?
  if [ $rc -ne $base ]; then echo "== $p exit $rc (unchanged tree: $base)"; echo "$out" | grep -E "^  FAIL|ANALYSIS-ERROR" | cut -c1-420 | head -${MAXL:-10}; fi
done
rm -rf $d
echo "== done"
