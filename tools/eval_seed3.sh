#!/bin/bash
# usage: eval_seed3.sh <worktree> [variants..] -- for each variant: which properties alarm, and does the seed's OWN property alarm?
wt=$1; shift; vs=${@:-a b}
own=$(basename $wt | sed 's/.*_//')
for v in $vs; do
  p=$wt/_seed_$v/patch.diff
  [ -f $p ] || { echo "$own $v: no patch"; continue; }
  out=$(MAXL=2 /verif/tools/eval_refactor.sh $p 2>&1 | grep -v "^== done")
  props=$(echo "$out" | grep -oE "^== C[0-9]+ exit [0-9]" | awk '{print $2":"$4}' | tr '\n' ' ')
  echo "#### $own $v: [$props] $(python3 -c "import json;print(json.load(open('$wt/_seed_$v/meta.json'))['summary'][:150])" 2>/dev/null)"
  echo "$out" | grep -A2 "^== $own " | grep -E "FAIL|ANALYSIS" | cut -c1-${W:-260}
done
